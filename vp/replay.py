#!/usr/bin/env python3
"""replay.py <property> <replay-file>: re-run a recorded counterexample against the real code
(native build of the harness TU with ASan/UBSan, inputs from the file)."""
import os, sys, re, importlib
HERE = os.path.dirname(os.path.abspath(__file__)); sys.path.insert(0, HERE)
import runner
from runner import Work, CbmcVariant, replay_native
pid, path = sys.argv[1], sys.argv[2]
txt = open(path).read()
mo = re.search(r"# unit=(\S+) entry=(\S+)", txt)
if not mo:
    print("replay file has no unit/entry header"); sys.exit(2)
uname, ename = mo.groups()
inputs = [int(x) for x in txt.splitlines()[0].split()]
mod = importlib.import_module("props." + pid)
for tier in ("quick", "thorough"):
    for u in mod.units(tier):
        if u.name == uname:
            for e in u.entries:
                if e.name == ename:
                    w = Work()
                    if u.kind == "cbmc":
                        v = CbmcVariant(w, u)
                    else:
                        import hashlib
                        tag = hashlib.sha1((" ".join(u.defines) + u.name).encode()).hexdigest()[:8]
                        v = runner._SmtNative(w, u, w.path("%s_%s" % (u.name, tag)))
                    verdict, what = "not_reproduced", ""
                    for attempt in range(getattr(u, "replay_repeat", 1)):
                        verdict, what, rf = replay_native(v, e, inputs, w, "r")
                        if verdict == "reproduced":
                            break
                    print(verdict, what)
                    sys.exit(1 if verdict == "reproduced" else 0)
print("unit/entry not found"); sys.exit(2)
