#!/usr/bin/env python3
"""replay.py <property> <replay-file>: re-run a recorded counterexample against the real code
(native build of the harness TU with ASan/UBSan, inputs from the file)."""
import os, sys, re, importlib
HERE = os.path.dirname(os.path.abspath(__file__)); sys.path.insert(0, HERE)
import runner
from runner import Work, CbmcVariant, replay_native
pid, path = sys.argv[1], sys.argv[2]
txt = open(path).read()
mo = re.search(r"# unit=(\S+) entry=(\S+)", txt)
if not mo:
    print("replay file has no unit/entry header"); sys.exit(2)
uname, ename = mo.groups()
inputs = [int(x) for x in txt.splitlines()[0].split()]
mod = importlib.import_module("props." + pid)
for tier in ("quick", "thorough"):
    for u in mod.units(tier):
        if u.name == uname and u.kind == "cbmc":
            for e in u.entries:
                if e.name == ename:
                    w = Work(); v = CbmcVariant(w, u)
                    verdict, what, rf = replay_native(v, e, inputs, w, "r")
                    print(verdict, what)
                    sys.exit(1 if verdict == "reproduced" else 0)
print("unit/entry not found"); sys.exit(2)
