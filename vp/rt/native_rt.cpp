// Native meaning of the harness protocol (DESIGN 2.1/2.6): inputs are popped from the
// replay file named by VP_REPLAY (whitespace-separated unsigned integers, raw bit patterns),
// assertion outcomes are printed, the first failing assertion exits with status 3.
#include <cstdio>
#include <cstdlib>
#include <cstring>
#include <cstdint>
#include <thread>
#include <vector>
#include <dlfcn.h>
static std::vector<uint64_t> g_in; static size_t g_pos; static bool g_loaded; static int g_trace;
static void load(){ if(g_loaded) return; g_loaded=true; const char*t=getenv("VP_TRACE"); g_trace=t&&*t=='1';
  const char*f=getenv("VP_REPLAY"); if(!f) return; FILE*fp=fopen(f,"r"); if(!fp) return; unsigned long long v; while(fscanf(fp,"%llu",&v)==1) g_in.push_back(v); fclose(fp);}
static uint64_t nextv(){ load(); return g_pos<g_in.size()? g_in[g_pos++] : 0; }
static std::vector<std::thread> g_threads;
extern "C" {
uint8_t vp_nondet_u8(void){return (uint8_t)nextv();}
uint16_t vp_nondet_u16(void){return (uint16_t)nextv();}
uint32_t vp_nondet_u32(void){return (uint32_t)nextv();}
uint64_t vp_nondet_u64(void){return (uint64_t)nextv();}
float vp_nondet_f32(void){uint32_t b=(uint32_t)nextv(); float f; memcpy(&f,&b,4); return f;}
double vp_nondet_f64(void){uint64_t b=nextv(); double f; memcpy(&f,&b,8); return f;}
unsigned vp_fix(unsigned x){ return x; }
void vp_sched(unsigned){}
unsigned vp_pick(unsigned n){ uint32_t v=(uint32_t)nextv(); if(v>=n){ printf("VP_ASSUME_FAIL\n"); fflush(stdout); _Exit(0);} return v; }
void vp_assume(bool c){ if(!c){ printf("VP_ASSUME_FAIL\n"); fflush(stdout); _Exit(0);} }
void vp_assert(bool c,const char*l){ load(); if(g_trace) printf("A %s %d\n",l,(int)c); if(!c){ printf("VP_ASSERT_FAIL %s\n",l); fflush(stdout); _Exit(3);} }
void vp_reach(const char*l){ load(); if(g_trace) printf("R %s\n",l); }
void vp_spawn(void(*fn)(void*),void*arg){ g_threads.emplace_back(fn,arg); }
void vp_atomic_begin(void){} void vp_atomic_end(void){}
void vp_shared(const void*,size_t){}
void vp_thread(unsigned){}
__attribute__((weak)) void vp_point(const char*){}
void vp_nothrow(bool){}
bool vp_feq(float a,float b){ if(a==b) return true; double d=(double)a-(double)b; if(d<0)d=-d; double s=1+(a<0?-a:a)+(b<0?-b:b); return d<=2e-3*s || (a!=a&&b!=b); }
bool vp_deq(double a,double b){ if(a==b) return true; double d=a-b; if(d<0)d=-d; double s=1+(a<0?-a:a)+(b<0?-b:b); return d<=1e-6*s || (a!=a&&b!=b); }
}
int main(int argc,char**argv){
  if(argc<2){fprintf(stderr,"usage: %s <entry>\n",argv[0]);return 2;}
  void*h=dlopen(nullptr,RTLD_NOW); void(*fn)()=(void(*)())dlsym(h,argv[1]);
  if(!fn){fprintf(stderr,"no entry %s\n",argv[1]);return 2;}
  fn(); for(auto&t:g_threads) t.join();
  printf("VP_DONE\n"); return 0; }
