/* gcc-side runtime for translation validation (DESIGN 2.5): runs the ll2c output concretely */
#include <stdio.h>
#include <stdlib.h>
#include <stdint.h>
#include <string.h>
#include <dlfcn.h>
static uint64_t *g_in; static size_t g_n, g_pos; static int g_loaded;
int vp_native_trace;
static void load(void){ if(g_loaded) return; g_loaded=1; const char*t=getenv("VP_TRACE"); vp_native_trace=t&&*t=='1';
  const char*f=getenv("VP_REPLAY"); if(!f) return; FILE*fp=fopen(f,"r"); if(!fp) return; g_in=malloc(8*4096); unsigned long long v; while(g_n<4096&&fscanf(fp,"%llu",&v)==1) g_in[g_n++]=v; fclose(fp);}
uint64_t vp_native_next(int bits){ load(); return g_pos<g_n? g_in[g_pos++]:0; }
int main(int argc,char**argv){ if(argc<2) return 2; load(); void*h=dlopen(NULL,RTLD_NOW); char nm[512]; snprintf(nm,sizeof nm,"ir_%s",argv[1]);
  void(*fn)(void)=(void(*)(void))dlsym(h,nm); if(!fn){fprintf(stderr,"no entry %s\n",nm);return 2;} fn(); printf("VP_DONE\n"); return 0; }
