#!/bin/bash
# try_mutant.sh <property> <patch.diff> [tier]: apply a seeded change to /repo, run the check, undo it
# (the evidence of that run goes to /tmp/mut/evidence, never to /verif/evidence)
id=$1; patch=$2; tier=${3:-quick}
mkdir -p /tmp/mut
cd /repo || exit 2
git apply "$patch" || { echo "patch does not apply"; exit 2; }
cd /verif
VP_EVIDENCE_DIR=/tmp/mut/evidence python3-vt vp/check.py $id --tier $tier > /tmp/mut/$id.$tier.out 2>&1
rc=$?
git -C /repo checkout -- .
echo "== $id ($tier) exit=$rc"; grep -E "VIOLATION|obligation:|KNOWN|INCONCLUSIVE|CHECK-ERROR|tier=" /tmp/mut/$id.$tier.out | cut -c1-400 | head -12
