"""ll2smt: symbolic execution of LLVM IR functions into z3 terms (DESIGN 2.2).

Path-forking executor (no state merging): every feasible-looking path of the entry
function yields a path condition; each vp_assert on a path is one obligation
(path_cond => cond) decided by z3.  Number semantics is a mode:
  BV/FP : ints as bit-vectors, floats as IEEE FloatingPoint (RNE)  -- bit-precise
  REAL  : ints as bit-vectors, floats as exact reals (sqrt/sin/cos by defining constraints)
  UF    : floats as an uninterpreted sort with uninterpreted (commutativity-normalised) operations
  INT   : ints as mathematical integers with explicit mod 2^w at wrapping ops (nsw/nuw = reported UB)
Unsupported instruction => Inconclusive (never "holds").
"""
import sys, os, json, time, struct, fractions
import z3
HERE = os.path.dirname(os.path.abspath(__file__))
sys.path.insert(0, HERE)
import llir
from llir import IRError


class Inconclusive(Exception):
    pass


class Packed:
    """integer-typed load that spans several typed cells (e.g. an i64 copy of two floats)"""
    def __init__(self, cells, size):
        self.cells = cells  # list of (rel_off, value, type)
        self.size = size


class RInf:
    """+-infinity constant in REAL mode (only comparisons and selection are supported; all other reals are finite)"""
    def __init__(self, sign):
        self.sign = sign


class Ptr:
    def __init__(self, obj, off=0, sym=None, stride=0):
        self.obj, self.off, self.sym, self.stride = obj, off, sym, stride

    def __repr__(self):
        return "Ptr(%s+%s%s)" % (self.obj, self.off, "+i*%d" % self.stride if self.sym is not None else "")


class Obj:
    def __init__(self, name, size):
        self.name, self.size = name, size
        self.cells = {}  # off -> (val, type)


class State:
    def __init__(self):
        self.vals = {}
        self.mem = {}
        self.pc = []
        self.nobj = 0

    def clone(self):
        s = State()
        s.vals = dict(self.vals)
        s.pc = list(self.pc)
        s.nobj = self.nobj
        for k, o in self.mem.items():
            o2 = Obj(o.name, o.size)
            o2.cells = dict(o.cells)
            s.mem[k] = o2
        return s


F32 = z3.Float32()
F64 = z3.Float64()
RNE = z3.RNE()


class Exec:
    def __init__(self, mod, mode="FP", int_mode="BV", max_paths=512, max_steps=200000):
        self.m = mod
        self.err_model = (mode == "ERR")
        if mode == "ERR":
            mode = "REAL"
        self.mode = mode
        self.int_mode = int_mode
        self.max_paths = max_paths
        self.max_steps = max_steps
        self.steps = 0
        self.inputs = []      # (name, expr, kind)
        self.oblig = []       # dict(label, pc, cond, kind)
        self.reach = []       # (label, pc)
        self.side = []        # global side constraints (defining equations)
        self.assumptions = set()
        self.ufs = {}
        self.trig = {}
        self.sqrt_cache = {}
        self.fresh = 0
        self.pow_apps = []
        self.divw = {}
        self.u2r = {}
        self.binfo = {}      # INT mode: expr id -> (known-zero low bits, max significant bits)
        self.cur_pc = None
        self.paths_done = 0
        self.UFS = z3.DeclareSort("F") if mode == "UF" else None
        self.funcs_encoded = set()

    # ---------- sorts / constants
    def fsort(self, ty):
        if self.mode == "REAL":
            return z3.RealSort()
        if self.mode == "UF":
            return self.UFS
        return F32 if ty.kind == "float" else F64

    def new(self, prefix, sort):
        self.fresh += 1
        return z3.Const("%s_%d" % (prefix, self.fresh), sort)

    def isort(self, bits):
        if self.int_mode == "INT" and bits > 1:
            return z3.IntSort()
        return z3.BitVecSort(bits)

    def iconst(self, v, bits):
        if self.int_mode == "INT" and bits > 1:
            return z3.IntVal(v & ((1 << bits) - 1))
        return z3.BitVecVal(v, bits)

    def fconst(self, v, ty):
        if self.mode == "REAL":
            if v in (float("inf"), float("-inf")):
                self.assumptions.add("REAL mode: +-infinity constants only flow into comparisons/min/max; every symbolic real is finite")
                return RInf(1 if v > 0 else -1)
            if v != v:
                raise Inconclusive("NaN constant in REAL mode")
            fr = fractions.Fraction(v)
            return z3.RealVal(fr)
        if self.mode == "UF":
            key = ("const", v, ty.kind)
            if key not in self.ufs:
                self.ufs[key] = z3.Const("c_%s_%d" % (str(v).replace(".", "_").replace("-", "m").replace("+", ""), len(self.ufs)), self.UFS)
            return self.ufs[key]
        return z3.FPVal(v, self.fsort(ty))

    def uf(self, name, args, commutative=False):
        if commutative:
            args = sorted(args, key=lambda e: e.get_id())
        key = (name, len(args))
        if key not in self.ufs:
            self.ufs[key] = z3.Function(name, *([self.UFS] * len(args) + [self.UFS]))
        return self.ufs[key](*args)

    # ---------- values
    def const(self, v):
        k, t = v.kind, v.ty
        if k == "int":
            return self.iconst(v.v, t.bits)
        if k == "fp":
            return self.fconst(v.v, t)
        if k == "null":
            return Ptr(None, 0)
        if k in ("undef", "zero"):
            if t.kind == "int":
                return self.iconst(0, t.bits)
            if t.is_fp:
                return self.fconst(0.0, t)
            if t.kind == "ptr":
                return Ptr(None, 0)
            if t.kind == "vector":
                return [self.const(llir.Val(k, t.elem)) for _ in range(t.n)]
            if t.kind in ("struct", "named", "array"):
                rt = self.m.resolve(t)
                if rt.kind == "struct":
                    return [self.const(llir.Val(k, f)) for f in rt.fields]
                return [self.const(llir.Val(k, rt.elem)) for _ in range(rt.n)]
        if k == "vector" or k == "struct" or k == "array":
            return [self.const(o) for o in v.ops]
        if k == "global":
            return self.global_ptr(v.v)
        if k == "cexpr":
            if v.v == "bitcast":
                return self.const(v.ops[0])
            if v.v == "getelementptr":
                base = self.const(v.ops[0])
                return self.gep(base, v.extra["srcty"], [self.const(o) for o in v.ops[1:]], v.ops[1:])
        raise Inconclusive("constant %s" % v)

    def global_ptr(self, name):
        key = "@" + name
        if key not in self.gmem:
            g = self.m.globals.get(name)
            if g is None:
                if name in self.m.funcs:
                    return Ptr(("fn", name), 0)
                raise Inconclusive("global %s" % name)
            o = Obj(key, self.m.sizeof(g.ty))
            self.gmem[key] = o
            if g.init is not None:
                self.init_cells(o, 0, g.init, g.ty)
        return Ptr(key, 0)

    def init_cells(self, o, off, v, t):
        rt = self.m.resolve(t) if t.kind == "named" else t
        if rt.kind == "struct":
            if v.kind in ("zero", "undef"):
                for i, f in enumerate(rt.fields):
                    self.init_cells(o, off + self.m.field_offset(rt, i), llir.Val(v.kind, f), f)
            else:
                for i, (f, ov) in enumerate(zip(rt.fields, v.ops)):
                    self.init_cells(o, off + self.m.field_offset(rt, i), ov, f)
        elif rt.kind in ("array", "vector"):
            es = self.m.sizeof(rt.elem)
            if v.kind == "cstr":
                for i, b in enumerate(v.v):
                    o.cells[off + i] = (self.iconst(b, 8), llir.I8)
            elif v.kind in ("zero", "undef"):
                for i in range(rt.n):
                    self.init_cells(o, off + i * es, llir.Val(v.kind, rt.elem), rt.elem)
            else:
                for i, ov in enumerate(v.ops):
                    self.init_cells(o, off + i * es, ov, rt.elem)
        else:
            o.cells[off] = (self.const(v) if v.kind not in ("zero", "undef") else self.const(llir.Val("zero", rt)), rt)

    def val(self, st, v):
        if v.kind == "local":
            if v.v not in st.vals:
                raise Inconclusive("use of undefined %%%s" % v.v)
            return st.vals[v.v]
        return self.const(v)

    # ---------- memory
    def obj(self, st, p):
        if p.obj is None:
            raise Inconclusive("null dereference")
        if isinstance(p.obj, str) and p.obj.startswith("@"):
            if p.obj not in st.mem:
                o = self.gmem[p.obj]
                o2 = Obj(o.name, o.size)
                o2.cells = dict(o.cells)
                st.mem[p.obj] = o2
            return st.mem[p.obj]
        return st.mem[p.obj]

    def ssize(self, t):
        """bytes touched by a load/store of t"""
        if t.kind == "int":
            return (t.bits + 7) // 8
        return self.m.sizeof(t)

    def scalar_leaves(self, t, off=0, out=None):
        if out is None:
            out = []
        rt = self.m.resolve(t) if t.kind == "named" else t
        if rt.kind == "struct":
            for i, f in enumerate(rt.fields):
                self.scalar_leaves(f, off + self.m.field_offset(rt, i), out)
        elif rt.kind in ("array", "vector"):
            es = self.m.sizeof(rt.elem)
            for i in range(rt.n):
                self.scalar_leaves(rt.elem, off + i * es, out)
        else:
            out.append((off, rt))
        return out

    def load(self, st, p, ty):
        if p.sym is not None:
            # symbolic index: ite chain over the candidate cells
            o = self.obj(st, p)
            res = None
            n = (o.size - p.off) // p.stride if p.stride else 0
            for i in reversed(range(n)):
                v = self.load(st, Ptr(p.obj, p.off + i * p.stride), ty)
                res = v if res is None else self.ite(p.sym == self.iconst(i, p.sym.size()) if z3.is_bv(p.sym) else p.sym == i, v, res)
            if res is None:
                raise Inconclusive("symbolic load from empty range")
            self.assumptions.add("symbolic index loads are in bounds (checked separately)")
            return res
        o = self.obj(st, p)
        rt = self.m.resolve(ty) if ty.kind == "named" else ty
        if rt.kind in ("struct", "array", "vector"):
            vals = []
            if rt.kind == "struct":
                for i, f in enumerate(rt.fields):
                    vals.append(self.load(st, Ptr(p.obj, p.off + self.m.field_offset(rt, i)), f))
            else:
                es = self.m.sizeof(rt.elem)
                for i in range(rt.n):
                    vals.append(self.load(st, Ptr(p.obj, p.off + i * es), rt.elem))
            return vals
        size = self.ssize(rt)
        if p.off < 0 or p.off + size > o.size:
            raise Inconclusive("load out of bounds of %s at %d (+%d) size %d" % (o.name, p.off, size, o.size))
        c = o.cells.get(p.off)
        if c is not None:
            v, ct = c
            csz = self.ssize(ct) if not isinstance(v, Packed) else v.size
            if csz == size:
                return self.reinterpret(v, ct, rt)
        # wider integer load spanning several cells
        if rt.kind == "int":
            cells = []
            for off in sorted(o.cells):
                v, ct = o.cells[off]
                sz = self.ssize(ct)
                if off >= p.off and off + sz <= p.off + size:
                    cells.append((off - p.off, v, ct))
            if cells and sum(self.ssize(ct) for _, _, ct in cells) == size and self.int_mode != "INT" and any(not (ct.kind == "int") for _, _, ct in cells):
                return Packed(cells, size)
        # bit-level re-slicing of integer/float cells (BV ints, FP or no floats involved)
        if self.int_mode == "BV" and rt.kind in ("int", "float", "double") and (rt.kind == "int" or self.mode == "FP"):
            bytes_ = {}
            ok = True
            for off2 in sorted(o.cells):
                v2, ct2 = o.cells[off2]
                if isinstance(v2, (Packed, Ptr, list)):
                    if off2 < p.off + size and p.off < off2 + (v2.size if isinstance(v2, Packed) else 8):
                        ok = False
                    continue
                sz2 = self.ssize(ct2)
                if off2 >= p.off + size or off2 + sz2 <= p.off:
                    continue
                if ct2.kind == "int" and z3.is_bv(v2):
                    bv = v2 if ct2.bits % 8 == 0 else z3.ZeroExt(8 * sz2 - ct2.bits, v2)
                elif ct2.is_fp and self.mode == "FP":
                    bv = z3.fpToIEEEBV(v2)
                else:
                    ok = False
                    break
                for b in range(sz2):
                    bytes_[off2 + b] = z3.Extract(8 * b + 7, 8 * b, bv)
            if ok and all((p.off + b) in bytes_ for b in range(size)):
                bv = bytes_[p.off] if size == 1 else z3.Concat(*[bytes_[p.off + b] for b in reversed(range(size))])
                if rt.kind == "int":
                    return bv if rt.bits == 8 * size else z3.Extract(rt.bits - 1, 0, bv)
                return z3.fpBVToFP(bv, self.fsort(rt))
        if self.int_mode == "INT" and rt.kind == "int":
            total = None
            covered = 0
            ok = True
            for off2 in sorted(o.cells):
                v2, ct2 = o.cells[off2]
                if isinstance(v2, (Packed, Ptr, list)) or ct2.kind != "int" or z3.is_bv(v2):
                    sz2 = 8 if not isinstance(v2, Packed) else v2.size
                    if off2 < p.off + size and p.off < off2 + sz2:
                        ok = False
                    continue
                sz2 = self.ssize(ct2)
                lo, hi = max(off2, p.off), min(off2 + sz2, p.off + size)
                if lo >= hi:
                    continue
                part = v2
                if lo > off2:
                    part = part / (1 << (8 * (lo - off2)))
                if hi - lo < sz2 - (lo - off2):
                    part = part % (1 << (8 * (hi - lo)))
                if lo > p.off:
                    part = part * (1 << (8 * (lo - p.off)))
                total = part if total is None else total + part
                covered += hi - lo
            if ok and covered == size and total is not None:
                if rt.bits < 8 * size:
                    total = total % (1 << rt.bits)
                return total
        # uninitialised cell: fresh value (undef)
        if c is None and not any(p.off < off2 + self.m.sizeof(o.cells[off2][1]) and off2 < p.off + size for off2 in o.cells):
            v = self.fresh_of(rt, "undef")
            o.cells[p.off] = (v, rt)
            return v
        raise Inconclusive("mismatched load of %s at %s+%d" % (rt, o.name, p.off))

    def fresh_of(self, rt, pre):
        if rt.kind == "int":
            return self.new(pre, self.isort(rt.bits))
        if rt.is_fp:
            return self.new(pre, self.fsort(rt))
        if rt.kind == "ptr":
            return Ptr(None, 0)
        raise Inconclusive("fresh %s" % rt)

    def reinterpret(self, v, ct, rt):
        if isinstance(v, (Ptr, Packed, list)):
            return v
        if ct.kind == rt.kind and (ct.kind != "int" or ct.bits == rt.bits):
            return v
        if self.mode in ("FP",) and self.int_mode == "BV":
            if ct.is_fp and rt.kind == "int":
                return z3.fpToIEEEBV(v)
            if ct.kind == "int" and rt.is_fp:
                return z3.fpBVToFP(v, self.fsort(rt))
        raise Inconclusive("reinterpret %s as %s in mode %s" % (ct, rt, self.mode))

    def store(self, st, p, v, ty):
        if p.sym is not None:
            raise Inconclusive("symbolic-index store")
        o = self.obj(st, p)
        rt = self.m.resolve(ty) if ty.kind == "named" else ty
        if isinstance(v, Packed):
            for (ro, cv, ct) in v.cells:
                self.store(st, Ptr(p.obj, p.off + ro), cv, ct)
            return
        if rt.kind in ("struct", "array", "vector"):
            if rt.kind == "struct":
                for i, f in enumerate(rt.fields):
                    self.store(st, Ptr(p.obj, p.off + self.m.field_offset(rt, i)), v[i], f)
            else:
                es = self.m.sizeof(rt.elem)
                for i in range(rt.n):
                    self.store(st, Ptr(p.obj, p.off + i * es), v[i], rt.elem)
            return
        size = self.ssize(rt)
        if v is None:
            v = self.fresh_of(rt, "undef")
        if p.off < 0 or p.off + size > o.size:
            raise Inconclusive("store out of bounds of %s at %d" % (o.name, p.off))
        # remove overlapped cells
        for off2 in list(o.cells):
            c2 = o.cells[off2]
            sz2 = c2[0].size if isinstance(c2[0], Packed) else self.ssize(c2[1])
            if off2 < p.off + size and p.off < off2 + sz2 and off2 != p.off:
                if off2 >= p.off and off2 + sz2 <= p.off + size:
                    del o.cells[off2]
                else:
                    raise Inconclusive("partially overlapping store")
        o.cells[p.off] = (v, rt)

    def alloc(self, st, name, size):
        st.nobj += 1
        key = "%s#%d" % (name, st.nobj)
        st.mem[key] = Obj(key, size)
        return Ptr(key, 0)

    def gep(self, base, srcty, idx, idx_vals):
        if not isinstance(base, Ptr):
            raise Inconclusive("gep on non-pointer")
        off = base.off
        sym, stride = base.sym, base.stride
        t = srcty
        first = True
        for iv, ix in zip(idx, idx_vals):
            if first:
                es = self.m.sizeof(t)
                first = False
                elem_t = None
            else:
                rt = self.m.resolve(t)
                if rt.kind == "struct":
                    off += self.m.field_offset(rt, ix.v)
                    t = rt.fields[ix.v]
                    continue
                es = self.m.sizeof(rt.elem)
                t = rt.elem
            c = self.concrete_int(iv, signed=True)
            if c is not None:
                off += c * es
            else:
                if sym is not None:
                    raise Inconclusive("two symbolic gep indices")
                sym, stride = iv, es
        return Ptr(base.obj, off, sym, stride)

    def concrete_int(self, e, signed=False):
        if isinstance(e, int):
            return e
        e = z3.simplify(e)
        if z3.is_bv_value(e):
            return e.as_signed_long() if signed else e.as_long()
        if z3.is_int_value(e):
            return e.as_long()
        return None

    def ite(self, c, a, b):
        if isinstance(a, list):
            return [self.ite(c, x, y) for x, y in zip(a, b)]
        if isinstance(a, Ptr) or isinstance(b, Ptr):
            if isinstance(a, Ptr) and isinstance(b, Ptr) and a.obj == b.obj and a.off == b.off and a.sym is None and b.sym is None:
                return a
            raise Inconclusive("select between distinct pointers")
        if isinstance(a, Packed) or isinstance(b, Packed):
            raise Inconclusive("select on packed value")
        if isinstance(a, RInf) or isinstance(b, RInf):
            cs = z3.simplify(c)
            if z3.is_true(cs):
                return a
            if z3.is_false(cs):
                return b
            raise Inconclusive("symbolic selection of an infinite value in REAL mode")
        return z3.If(c, a, b)

    def bool_of(self, v):
        """i1 value -> z3 Bool"""
        if z3.is_bool(v):
            return v
        return v == z3.BitVecVal(1, 1)

    def i1(self, b):
        return z3.If(b, z3.BitVecVal(1, 1), z3.BitVecVal(0, 1))

    # ---------- float ops
    def fbin(self, op, a, b, ty):
        if isinstance(a, RInf) or isinstance(b, RInf):
            raise Inconclusive("arithmetic on an infinite value in REAL mode")
        if self.mode == "REAL":
            r = {"fadd": lambda: a + b, "fsub": lambda: a - b, "fmul": lambda: a * b, "fdiv": lambda: a / b}.get(op)
            if r is not None:
                r = r()
                if self.err_model:
                    # standard model of IEEE-754 round-to-nearest in the normal range: fl(x o y) = (x o y)(1+d), |d| <= 2^-24 (2^-53)
                    u = fractions.Fraction(1, 2 ** 24) if ty.kind == "float" else fractions.Fraction(1, 2 ** 53)
                    d = self.new("delta", z3.RealSort())
                    self.side.append(z3.And(d <= z3.RealVal(u), d >= -z3.RealVal(u)))
                    self.assumptions.add("ERR mode: each float op is exact*(1+d), |d|<=2^-24 (float) / 2^-53 (double), fresh d per instruction; results assumed in the normal range")
                    if ty.kind == "float":
                        # the model is only valid while the exact result stays in float's normal range: make that an obligation
                        FMAX = z3.RealVal(fractions.Fraction(0xffffff, 1) * fractions.Fraction(2) ** 104)
                        FMIN = z3.RealVal(fractions.Fraction(511, 512) * fractions.Fraction(1, 2 ** 126))
                        self.cur_checks.append(("RANGE:float intermediate overflows (|v| > FLT_MAX) in %s" % op, z3.And(r <= FMAX, r >= -FMAX), z3.Or(r > 16 * FMAX, r < -16 * FMAX)))
                        if not os.environ.get("VP_NO_UNDERFLOW_CHECK"):
                            self.cur_checks.append(("RANGE:float intermediate underflows (0 < |v| < 2^-126) in %s" % op, z3.Or(r == 0, r >= FMIN, r <= -FMIN), z3.And(r != 0, r < FMIN / 16, r > -FMIN / 16)))
                    r = r * (1 + d)
                return r
        elif self.mode == "UF":
            return self.uf(op + "_" + ty.kind, [a, b], commutative=op in ("fadd", "fmul"))
        else:
            if op == "fadd":
                return z3.fpAdd(RNE, a, b)
            if op == "fsub":
                return z3.fpSub(RNE, a, b)
            if op == "fmul":
                return z3.fpMul(RNE, a, b)
            if op == "fdiv":
                return z3.fpDiv(RNE, a, b)
        raise Inconclusive("float op %s" % op)

    def fcmp(self, pred, a, b):
        if isinstance(a, RInf) or isinstance(b, RInf):
            sa = a.sign * 2 if isinstance(a, RInf) else 0
            sb = b.sign * 2 if isinstance(b, RInf) else 0
            p = pred[1:] if pred not in ("ord", "uno") else pred
            r = {"eq": sa == sb, "ne": sa != sb, "lt": sa < sb, "le": sa <= sb, "gt": sa > sb, "ge": sa >= sb, "ord": True, "uno": False}[p]
            return z3.BoolVal(r)
        if self.mode == "REAL":
            m = {"oeq": a == b, "ueq": a == b, "one": a != b, "une": a != b, "olt": a < b, "ult": a < b, "ole": a <= b, "ule": a <= b,
                 "ogt": a > b, "ugt": a > b, "oge": a >= b, "uge": a >= b, "ord": z3.BoolVal(True), "uno": z3.BoolVal(False)}
            return m[pred]
        if self.mode == "UF":
            if pred in ("oeq", "ueq"):
                return a == b
            if pred in ("one", "une"):
                return a != b
            key = ("cmp_" + pred,)
            if key not in self.ufs:
                self.ufs[key] = z3.Function("cmp_" + pred, self.UFS, self.UFS, z3.BoolSort())
            return self.ufs[key](a, b)
        nan = z3.Or(z3.fpIsNaN(a), z3.fpIsNaN(b))
        base = {"eq": z3.fpEQ(a, b), "ne": z3.Not(z3.fpEQ(a, b)), "lt": z3.fpLT(a, b), "le": z3.fpLEQ(a, b), "gt": z3.fpGT(a, b), "ge": z3.fpGEQ(a, b)}
        if pred == "ord":
            return z3.Not(nan)
        if pred == "uno":
            return nan
        if pred == "one":
            return z3.And(z3.Not(nan), z3.Not(z3.fpEQ(a, b)))
        if pred == "ueq":
            return z3.Or(nan, z3.fpEQ(a, b))
        if pred == "une":
            return z3.Or(nan, z3.Not(z3.fpEQ(a, b)))
        if pred[0] == "o":
            return z3.And(z3.Not(nan), base[pred[1:]])
        if pred[0] == "u":
            return z3.Or(nan, base[pred[1:]])
        raise Inconclusive("fcmp " + pred)

    def fneg(self, a, ty):
        if self.mode == "REAL":
            return -a
        if self.mode == "UF":
            return self.uf("fneg_" + ty.kind, [a])
        return z3.fpNeg(a)

    def fun1(self, name, a, ty):
        """sqrt / fabs / sin / cos / floor ..."""
        if self.mode == "REAL":
            if name == "fabs":
                return z3.If(a >= 0, a, -a)
            if name == "sqrt":
                k = a.get_id()
                if k not in self.sqrt_cache and self.cur_pc is not None:
                    # fold sqrt(a) when the path condition fixes a to 0 or 1 (unit-vector preconditions)
                    for cval in (1, 0):
                        q = z3.Solver()
                        q.set("timeout", 1500)
                        q.add(*self.cur_pc)
                        q.add(*self.side)
                        q.add(a != cval)
                        if q.check() == z3.unsat:
                            self.sqrt_cache[k] = z3.RealVal(cval)
                            break
                if k not in self.sqrt_cache:
                    s = self.new("sqrt", z3.RealSort())
                    self.side.append(z3.And(s >= 0, s * s == a))
                    self.sqrt_cache[k] = s
                    self.sqrt_args = getattr(self, "sqrt_args", []) + [a]
                return self.sqrt_cache[k]
            if name == "acos":
                # theta = acos(a): cos(theta) = a, sin(theta) >= 0 (theta in [0, pi]); defined for |a| <= 1 (assumed)
                a = z3.simplify(a)
                ck = ("acos", a.get_id())
                if ck not in self.trig:
                    th = self.new("acos", z3.RealSort())
                    s_, c_ = self.new("sin", z3.RealSort()), self.new("cos", z3.RealSort())
                    self.side.append(z3.And(s_ * s_ + c_ * c_ == 1, c_ == a, s_ >= 0, th >= 0))
                    # acos is a function: equal arguments, equal angles
                    for (a2, th2) in getattr(self, "acos_apps", []):
                        self.side.append(z3.Implies(a == a2, th == th2))
                    self.acos_apps = getattr(self, "acos_apps", []) + [(a, th)]
                    self.trig[th.get_id()] = (s_, c_, th)
                    self.trig[ck] = th
                    self.assumptions.add("acos(x): an angle theta >= 0 with cos(theta) = x and sin(theta) >= 0; |x| <= 1 assumed")
                return self.trig[ck]
            if name in ("sin", "cos"):
                a = z3.simplify(a)
                if z3.is_rational_value(a) and a.numerator_as_long() == 0:
                    return z3.RealVal(0 if name == "sin" else 1)
                k = a.get_id()
                if k not in self.trig:
                    s_, c_ = self.new("sin", z3.RealSort()), self.new("cos", z3.RealSort())
                    self.side.append(s_ * s_ + c_ * c_ == 1)
                    # sin/cos are functions: equal angles, equal values; the angle 0
                    self.side.append(z3.Implies(a == 0, z3.And(s_ == 0, c_ == 1)))
                    for v in list(self.trig.values()):
                        if isinstance(v, tuple):
                            self.side.append(z3.Implies(a == v[2], z3.And(s_ == v[0], c_ == v[1])))
                    self.trig[k] = (s_, c_, a)
                return self.trig[k][0 if name == "sin" else 1]
            raise Inconclusive("real function " + name)
        if self.mode == "UF":
            return self.uf(name + "_" + ty.kind, [a])
        if name == "fabs":
            return z3.fpAbs(a)
        if name == "sqrt":
            return z3.fpSqrt(RNE, a)
        if name == "floor":
            return z3.fpRoundToIntegral(z3.RTN(), a)
        if name == "ceil":
            return z3.fpRoundToIntegral(z3.RTP(), a)
        if name == "trunc":
            return z3.fpRoundToIntegral(z3.RTZ(), a)
        if name == "round":
            return z3.fpRoundToIntegral(z3.RNA(), a)
        # libm functions: uninterpreted
        key = (name, ty.kind)
        if key not in self.ufs:
            self.ufs[key] = z3.Function(name + "_" + ty.kind, self.fsort(ty), self.fsort(ty))
            self.assumptions.add("%s is an uninterpreted function (libm contract not modelled)" % name)
        return self.ufs[key](a)

    # ---------- integer ops
    def ibin(self, ins, a, b):
        op = ins.op
        bits = ins.ty.bits
        flags = ins.attrs.get("flags", [])
        if isinstance(a, Packed) or isinstance(b, Packed):
            return self.packed_op(ins, a, b)
        if self.int_mode == "INT" and bits > 1:
            M = 1 << bits

            def sgn(x):
                return z3.If(x >= M // 2, x - M, x)
            if op in ("add", "sub", "mul"):
                raw = {"add": a + b, "sub": a - b, "mul": a * b}[op]
                if "nsw" in flags:
                    sraw = {"add": sgn(a) + sgn(b), "sub": sgn(a) - sgn(b), "mul": sgn(a) * sgn(b)}[op]
                    self.ub_check(z3.And(sraw >= -(M // 2), sraw < M // 2), "UB:signed overflow (nsw) in %s i%d" % (op, bits))
                if "nuw" in flags:
                    self.ub_check(z3.And(raw >= 0, raw < M), "UB:unsigned overflow (nuw) in %s i%d" % (op, bits))
                return raw % M
            if op in ("udiv", "urem"):
                self.ub_check(b != 0, "UB:division by zero")
                cb = self.concrete_int(b)
                if cb is not None or os.environ.get("VP_NO_DIVWITNESS"):
                    return a / b if op == "udiv" else a % b
                # Euclidean witnesses instead of div/mod terms (much easier for z3's nonlinear integer engine)
                k = (a.get_id(), b.get_id())
                if k not in self.divw:
                    q, r = self.new("q", z3.IntSort()), self.new("r", z3.IntSort())
                    self.side.append(z3.Implies(b > 0, z3.And(a == b * q + r, r >= 0, r < b, q >= 0, q <= a)))
                    self.divw[k] = (q, r, a, b)
                return self.divw[k][0] if op == "udiv" else self.divw[k][1]
            if op in ("sdiv", "srem"):
                self.ub_check(b != 0, "UB:division by zero")
                sa, sb = sgn(a), sgn(b)
                # truncating division
                q = z3.If(sb > 0, z3.If(sa >= 0, sa / sb, -((-sa) / sb)), z3.If(sa >= 0, -(sa / (-sb)), (-sa) / (-sb)))
                if op == "sdiv":
                    self.ub_check(z3.Not(z3.And(sa == -(M // 2), sb == -1)), "UB:signed division overflow")
                    return q % M
                return (sa - q * sb) % M
            if op == "shl":
                c = self.concrete_int(b)
                if c is None:
                    raise Inconclusive("symbolic shift in INT mode")
                mb = self.binfo.get(a.get_id(), (0, bits))[1]
                r = (a * (1 << c)) % M if mb + c > bits else a * (1 << c)
                self.binfo[r.get_id()] = (c, min(bits, mb + c))
                return r
            if op == "or":
                la, ma = self.binfo.get(a.get_id(), (0, bits))
                lb, mb = self.binfo.get(b.get_id(), (0, bits))
                if ma <= lb or mb <= la:
                    r = a + b
                    self.binfo[r.get_id()] = (min(la, lb), max(ma, mb))
                    return r
            if op == "lshr":
                c = self.concrete_int(b)
                if c is None:
                    raise Inconclusive("symbolic shift in INT mode")
                return a / (1 << c)
            if op == "ashr":
                c = self.concrete_int(b)
                if c is None:
                    raise Inconclusive("symbolic shift in INT mode")
                sa = sgn(a)
                return (z3.If(sa >= 0, sa / (1 << c), -((-sa + (1 << c) - 1) / (1 << c)))) % M
            if op == "and":
                c = self.concrete_int(b)
                if c is not None and (c + 1) & c == 0:
                    return a % (c + 1)
            if op == "xor":
                c = self.concrete_int(b)
                if c == M - 1:
                    return (M - 1) - a
            if op in ("and", "or", "xor"):
                ba, bb = z3.Int2BV(a, bits), z3.Int2BV(b, bits)
                return z3.BV2Int({"and": ba & bb, "or": ba | bb, "xor": ba ^ bb}[op])
            raise Inconclusive("INT-mode op %s" % op)
        # bit-vector
        if op in ("add", "sub", "mul"):
            if "nsw" in flags:
                ok = {"add": z3.And(z3.BVAddNoOverflow(a, b, True), z3.BVAddNoUnderflow(a, b)),
                      "sub": z3.And(z3.BVSubNoOverflow(a, b), z3.BVSubNoUnderflow(a, b, True)),
                      "mul": z3.And(z3.BVMulNoOverflow(a, b, True), z3.BVMulNoUnderflow(a, b))}[op]
                self.ub_check(ok, "UB:signed overflow (nsw) in %s i%d" % (op, bits))
            if "nuw" in flags:
                ok = {"add": z3.BVAddNoOverflow(a, b, False), "sub": z3.UGE(a, b), "mul": z3.BVMulNoOverflow(a, b, False)}[op]
                self.ub_check(ok, "UB:unsigned overflow (nuw) in %s i%d" % (op, bits))
            return {"add": a + b, "sub": a - b, "mul": a * b}[op]
        if op == "udiv":
            self.ub_check(b != 0, "UB:division by zero")
            return z3.UDiv(a, b)
        if op == "urem":
            self.ub_check(b != 0, "UB:division by zero")
            return z3.URem(a, b)
        if op == "sdiv":
            self.ub_check(b != 0, "UB:division by zero")
            return a / b
        if op == "srem":
            self.ub_check(b != 0, "UB:division by zero")
            return z3.SRem(a, b)
        if op == "shl":
            return a << b
        if op == "lshr":
            return z3.LShR(a, b)
        if op == "ashr":
            return a >> b
        if op == "and":
            return a & b
        if op == "or":
            return a | b
        if op == "xor":
            return a ^ b
        raise Inconclusive(op)

    def packed_op(self, ins, a, b):
        op = ins.op
        if op == "lshr" and isinstance(a, Packed):
            c = self.concrete_int(b)
            if c is not None and c % 8 == 0:
                sh = c // 8
                cells = [(o - sh, v, t) for (o, v, t) in a.cells if o >= sh]
                return Packed(cells, a.size)
        raise Inconclusive("operation %s on packed value" % op)

    def ub_check(self, ok, label):
        self.cur_checks.append((label, ok))

    def icmp(self, pred, a, b, ty):
        if isinstance(a, Ptr) or isinstance(b, Ptr):
            if pred in ("eq", "ne"):
                same = isinstance(a, Ptr) and isinstance(b, Ptr) and a.obj == b.obj and a.off == b.off and a.sym is None and b.sym is None
                bothknown = isinstance(a, Ptr) and isinstance(b, Ptr) and a.sym is None and b.sym is None
                if bothknown:
                    r = same
                    return z3.BoolVal(r if pred == "eq" else not r)
            raise Inconclusive("pointer comparison")
        if self.int_mode == "INT" and not z3.is_bv(a):
            M = 1 << ty.bits

            def sgn(x):
                return z3.If(x >= M // 2, x - M, x)
            if pred[0] == "s":
                a, b = sgn(a), sgn(b)
            return {"eq": a == b, "ne": a != b, "ugt": a > b, "uge": a >= b, "ult": a < b, "ule": a <= b,
                    "sgt": a > b, "sge": a >= b, "slt": a < b, "sle": a <= b}[pred]
        return {"eq": a == b, "ne": a != b, "ugt": z3.UGT(a, b), "uge": z3.UGE(a, b), "ult": z3.ULT(a, b), "ule": z3.ULE(a, b),
                "sgt": a > b, "sge": a >= b, "slt": a < b, "sle": a <= b}[pred]

    def cast(self, ins, v):
        op, st, dt = ins.op, ins.ops[0].ty, ins.ty
        if st.kind == "vector":
            ev = []
            for x in v:
                ev.append(self.cast_scalar(op, x, st.elem, dt.elem))
            return ev
        return self.cast_scalar(op, v, st, dt)

    def cast_scalar(self, op, v, st, dt):
        if op == "bitcast":
            if st.kind == "ptr":
                return v
            if isinstance(v, Packed):
                if dt.kind == "vector" and len(v.cells) == dt.n:
                    return [c[1] for c in sorted(v.cells)]
                raise Inconclusive("bitcast of packed value")
            if isinstance(v, list) and dt.kind == "int":
                es = self.m.sizeof(st.elem)
                return Packed([(i * es, x, st.elem) for i, x in enumerate(v)], self.m.sizeof(st))
            if isinstance(v, list) and dt.kind == "vector" and st.n == dt.n:
                return [self.reinterpret(x, st.elem, dt.elem) for x in v]
            if dt.kind == "vector" and st.kind == "int":
                raise Inconclusive("int->vector bitcast")
            return self.reinterpret(v, st, dt)
        if isinstance(v, Packed):
            if op == "trunc":
                nbytes = dt.bits // 8
                cells = [(o, x, t) for (o, x, t) in v.cells if o >= 0 and o + self.m.sizeof(t) <= nbytes]
                if len(cells) == 1 and self.m.sizeof(cells[0][2]) == nbytes and cells[0][0] == 0:
                    return self.reinterpret(cells[0][1], cells[0][2], dt) if cells[0][2].kind == "int" else Packed(cells, nbytes)
                return Packed(cells, nbytes)
            raise Inconclusive("cast %s of packed" % op)
        INT = self.int_mode == "INT"
        if op == "trunc":
            if INT and not z3.is_bv(v):
                return v % (1 << dt.bits) if dt.bits > 1 else z3.If(v % 2 == 1, z3.BitVecVal(1, 1), z3.BitVecVal(0, 1))
            return z3.Extract(dt.bits - 1, 0, v)
        if op == "zext":
            if INT:
                if z3.is_bv(v):
                    r = z3.BV2Int(v)
                    self.binfo[r.get_id()] = (0, st.bits)
                    return r
                if v.get_id() not in self.binfo:
                    self.binfo[v.get_id()] = (0, st.bits)
                else:
                    self.binfo[v.get_id()] = (self.binfo[v.get_id()][0], min(st.bits, self.binfo[v.get_id()][1]))
                return v
            return z3.ZeroExt(dt.bits - st.bits, v)
        if op == "sext":
            if INT:
                if z3.is_bv(v):
                    return z3.If(v == 1, z3.IntVal((1 << dt.bits) - 1), z3.IntVal(0))
                M, N = 1 << st.bits, 1 << dt.bits
                return z3.If(v >= M // 2, v - M + N, v)
            return z3.SignExt(dt.bits - st.bits, v)
        if op in ("fpext", "fptrunc"):
            if self.mode == "REAL":
                return v
            if self.mode == "UF":
                return self.uf("%s_%s_%s" % (op, st.kind, dt.kind), [v])
            return z3.fpFPToFP(RNE, v, self.fsort(dt))
        if op in ("sitofp", "uitofp"):
            if self.mode == "REAL":
                if z3.is_bv(v) and not z3.is_bv_value(v) and os.environ.get("VP_ABSTRACT_WORDS"):
                    # over-approximation: the converted word is an arbitrary real in the type's range (integrality dropped)
                    k = (v.get_id(), op)
                    if k not in self.u2r:
                        r = self.new("word", z3.RealSort())
                        bits = v.size()
                        hi = (1 << bits) - 1
                        try:
                            if v.decl().kind() in (z3.Z3_OP_BUREM, z3.Z3_OP_BUREM_I) and z3.is_bv_value(v.arg(1)) and v.arg(1).as_long() > 0:
                                hi = v.arg(1).as_long() - 1
                        except Exception:
                            pass
                        if op == "uitofp":
                            self.side.append(z3.And(r >= 0, r <= hi))
                        else:
                            self.side.append(z3.And(r >= -(1 << (bits - 1)), r <= (1 << (bits - 1)) - 1))
                        self.u2r[k] = r
                        self.assumptions.add("REAL mode: int->float of a symbolic machine word is an arbitrary real within the word's range (over-approximation)")
                    return self.u2r[k]
                if z3.is_bv(v):
                    return z3.ToReal(z3.BV2Int(v, is_signed=(op == "sitofp")))
                if op == "sitofp":
                    M = 1 << st.bits
                    v = z3.If(v >= M // 2, v - M, v)
                return z3.ToReal(v)
            if self.mode == "UF":
                raise Inconclusive("int->float in UF mode")
            if not z3.is_bv(v):
                raise Inconclusive("int->float with INT ints")
            return z3.fpSignedToFP(RNE, v, self.fsort(dt)) if op == "sitofp" else z3.fpUnsignedToFP(RNE, v, self.fsort(dt))
        if op in ("fptosi", "fptoui"):
            if self.mode == "FP":
                return z3.fpToSBV(z3.RTZ(), v, z3.BitVecSort(dt.bits)) if op == "fptosi" else z3.fpToUBV(z3.RTZ(), v, z3.BitVecSort(dt.bits))
            raise Inconclusive("float->int in mode %s" % self.mode)
        if op in ("ptrtoint", "inttoptr"):
            raise Inconclusive(op)
        raise Inconclusive(op)

    # ---------- execution
    def run_entry(self, name):
        f = self.m.funcs[name]
        self.gmem = {}
        st = State()
        self.final = []
        self.call(st, f, [], top=True)
        return self.oblig

    def call(self, st, f, args, top=False):
        """executes f on every path; returns list of (state, retval)"""
        self.funcs_encoded.add(f.name)
        frame = dict(st.vals)
        st.vals = {}
        for (p, a) in zip(f.params, args):
            st.vals[p[1]] = a
        results = []
        work = [(st, f.blocks[0], None)]
        while work:
            s, b, prev = work.pop()
            while True:
                nxt = self.exec_block(s, f, b, prev)
                if nxt[0] == "ret":
                    results.append((s, nxt[1]))
                    break
                if nxt[0] == "dead":
                    break
                if nxt[0] == "goto":
                    prev, b = b, f.bmap[nxt[1]]
                    continue
                if nxt[0] == "fork":
                    cond, t1, t2 = nxt[1], nxt[2], nxt[3]
                    s2 = s.clone()
                    s2.pc.append(z3.Not(cond))
                    s.pc.append(cond)
                    if len(work) + self.paths_done > self.max_paths:
                        raise Inconclusive("path limit %d exceeded" % self.max_paths)
                    if self.feasible(s2.pc):
                        work.append((s2, f.bmap[t2], b))
                    if not self.feasible(s.pc):
                        break
                    prev, b = b, f.bmap[t1]
                    continue
                if nxt[0] == "multi":
                    # call returned on several paths: continue each from the instruction after the call
                    raise Inconclusive("internal: multi")
        for (s, rv) in results:
            callee_vals = s.vals
            s.vals = dict(frame)
        if top:
            self.paths_done += len(results)
        return results

    def feasible(self, pc):
        if not pc:
            return True
        last = z3.simplify(pc[-1])
        if z3.is_false(last):
            return False
        if z3.is_true(last):
            return True
        sol = z3.Solver()
        sol.set("timeout", 2000)
        sol.add(*pc)
        sol.add(*self.side)
        return sol.check() != z3.unsat

    def exec_block(self, st, f, b, prev):
        # phis first (parallel)
        newv = {}
        for ins in b.instrs:
            if ins.op != "phi":
                break
            for (v, lb) in ins.attrs["incoming"]:
                if prev is not None and lb == prev.name:
                    newv[ins.res] = self.val(st, v) if v.kind != "undef" else self.const(v)
                    break
            else:
                raise Inconclusive("phi without matching predecessor")
        st.vals.update(newv)
        i = 0
        instrs = b.instrs
        n = len(instrs)
        while i < n:
            ins = instrs[i]
            i += 1
            if ins.op == "phi":
                continue
            self.steps += 1
            if self.steps > self.max_steps:
                raise Inconclusive("step limit")
            r = self.step(st, f, ins)
            if r is not None:
                if r[0] == "callfork":
                    # callee returned on several paths: replicate the remainder of this block
                    raise Inconclusive("callee with several return paths in the middle of a block (not merged)")
                return r
        raise Inconclusive("block without terminator")

    def step(self, st, f, ins):
        op = ins.op
        A = ins.attrs
        V = lambda k: self.val(st, ins.ops[k])
        self.cur_checks = []
        self.cur_pc = st.pc
        res = None
        if op in ("add", "sub", "mul", "udiv", "sdiv", "urem", "srem", "shl", "lshr", "ashr", "and", "or", "xor"):
            a, b = V(0), V(1)
            if ins.ty.kind == "vector":
                sub = llir.Instr(op, None, ins.ty.elem, [], **A)
                res = [None if x is None or y is None else self.ibin(sub, x, y) for x, y in zip(a, b)]
            else:
                if ins.ty.bits == 1 and z3.is_bool(a):
                    a, b = self.i1(a), self.i1(b)
                res = self.ibin(ins, a, b)
        elif op in ("fadd", "fsub", "fmul", "fdiv"):
            a, b = V(0), V(1)
            if ins.ty.kind == "vector":
                res = [None if x is None or y is None else self.fbin(op, x, y, ins.ty.elem) for x, y in zip(a, b)]
            else:
                res = self.fbin(op, a, b, ins.ty)
        elif op == "fneg":
            a = V(0)
            res = [None if x is None else self.fneg(x, ins.ty.elem) for x in a] if ins.ty.kind == "vector" else self.fneg(a, ins.ty)
        elif op == "icmp":
            a, b = V(0), V(1)
            t = ins.ops[0].ty
            if t.kind == "vector":
                res = [self.i1(self.icmp(A["pred"], x, y, t.elem)) for x, y in zip(a, b)]
            else:
                res = self.i1(self.icmp(A["pred"], a, b, t))
        elif op == "fcmp":
            a, b = V(0), V(1)
            if ins.ops[0].ty.kind == "vector":
                res = [None if x is None or y is None else self.i1(self.fcmp(A["pred"], x, y)) for x, y in zip(a, b)]
            else:
                res = self.i1(self.fcmp(A["pred"], a, b))
        elif op == "select":
            c, a, b = V(0), V(1), V(2)
            if isinstance(c, list):
                res = [None if ci is None or x is None or y is None else self.ite(self.bool_of(ci), x, y) for ci, x, y in zip(c, a, b)]
            else:
                cs = z3.simplify(self.bool_of(c))
                if z3.is_true(cs):
                    res = a
                elif z3.is_false(cs):
                    res = b
                else:
                    res = self.ite(cs, a, b)
        elif op in ("trunc", "zext", "sext", "fptrunc", "fpext", "fptoui", "fptosi", "uitofp", "sitofp", "bitcast", "ptrtoint", "inttoptr"):
            res = self.cast(ins, V(0))
        elif op == "alloca":
            res = self.alloc(st, "alloca_" + str(ins.res), self.m.sizeof(A["elty"]))
        elif op == "load":
            res = self.load(st, V(0), ins.ty)
        elif op == "store":
            self.store(st, V(1), V(0), ins.ops[0].ty)
        elif op == "getelementptr":
            res = self.gep(V(0), A["srcty"], [self.val(st, o) for o in ins.ops[1:]], ins.ops[1:])
        elif op == "extractelement":
            vec = V(0)
            idx = self.concrete_int(V(1))
            if idx is None:
                raise Inconclusive("symbolic extractelement")
            res = vec[idx]
        elif op == "insertelement":
            vec = list(V(0)) if ins.ops[0].kind != "undef" else [None] * ins.ty.n
            idx = self.concrete_int(V(2))
            vec[idx] = V(1)
            res = vec
        elif op == "shufflevector":
            a = V(0)
            b = V(1) if ins.ops[1].kind != "undef" else [None] * len(a)
            both = list(a) + list(b)
            res = [both[m] if m >= 0 else None for m in A["mask"]]
        elif op == "extractvalue":
            v = V(0)
            for i in A["idx"]:
                v = v[i]
            res = v
        elif op == "insertvalue":
            def setp(agg, idx, val):
                agg = list(agg)
                if len(idx) == 1:
                    agg[idx[0]] = val
                else:
                    agg[idx[0]] = setp(agg[idx[0]], idx[1:], val)
                return agg
            base = V(0) if ins.ops[0].kind != "undef" else self.const(llir.Val("zero", ins.ty))
            res = setp(base, A["idx"], V(1))
        elif op == "freeze":
            res = V(0)
        elif op == "call":
            r = self.do_call(st, f, ins)
            if r is not None and isinstance(r, tuple) and r and r[0] == "dead":
                return r
            res = r
        elif op == "ret":
            self.flush_checks(st)
            return ("ret", V(0) if ins.ops else None)
        elif op == "br":
            self.flush_checks(st)
            tg = A["targets"]
            if len(tg) == 1:
                return ("goto", tg[0])
            c = z3.simplify(self.bool_of(V(0)))
            if z3.is_true(c):
                return ("goto", tg[0])
            if z3.is_false(c):
                return ("goto", tg[1])
            return ("fork", c, tg[0], tg[1])
        elif op == "switch":
            v = V(0)
            cv = self.concrete_int(v)
            if cv is None:
                raise Inconclusive("symbolic switch")
            for (c, lb) in A["cases"]:
                if c & ((1 << ins.ops[0].ty.bits) - 1) == cv:
                    return ("goto", lb)
            return ("goto", A["default"])
        elif op == "unreachable":
            self.oblig.append(dict(label="UB:unreachable executed", pc=list(st.pc), cond=z3.BoolVal(False), kind="UB"))
            return ("dead",)
        else:
            raise Inconclusive("unsupported instruction %s" % op)
        self.flush_checks(st)
        if ins.res is not None:
            st.vals[ins.res] = res
        return None

    def flush_checks(self, st):
        for item in self.cur_checks:
            label, ok = item[0], item[1]
            oks = z3.simplify(ok)
            if z3.is_true(oks):
                continue
            ob = dict(label=label, pc=list(st.pc), cond=ok, kind="UB")
            if len(item) > 2:
                # a violation with a margin: preferred as the counterexample because it survives the difference between the
                # contract of an approximate instruction (rcpss/rsqrtss +-1.5*2^-12) and the value the hardware really returns
                ob["robust"] = item[2]
            self.oblig.append(ob)
        self.cur_checks = []

    def strlit(self, st, p):
        if not isinstance(p, Ptr) or p.obj is None:
            return "?"
        o = self.obj(st, p)
        out = []
        off = p.off
        while off in o.cells:
            c = self.concrete_int(o.cells[off][0])
            if not c:
                break
            out.append(chr(c))
            off += 1
        return "".join(out)

    def do_call(self, st, f, ins):
        callee = ins.attrs["callee"]
        if callee.kind == "asm":
            return None
        if callee.kind != "global":
            raise Inconclusive("indirect call")
        name = callee.v
        if name.startswith(("llvm.experimental.", "llvm.lifetime.", "llvm.dbg.", "llvm.assume", "llvm.invariant.")):
            return None
        args = [self.val(st, a) for a in ins.ops]
        ty = ins.ty
        if name.startswith("vp_nondet_"):
            kind = name[len("vp_nondet_"):]
            if kind[0] == "f":
                t = llir.FLOAT if kind == "f32" else llir.DOUBLE
                v = self.new("in_" + kind, self.fsort(t))
                if self.mode == "FP":
                    pass
            else:
                bits = int(kind[1:])
                v = self.new("in_" + kind, self.isort(bits))
                if self.int_mode == "INT" and bits > 1:
                    self.side.append(z3.And(v >= 0, v < (1 << bits)))
            self.inputs.append((kind, v))
            return v
        if name == "vp_assume":
            st.pc.append(self.bool_of(args[0]))
            if not self.feasible(st.pc):
                return ("dead",)
            return None
        if name == "vp_assert":
            self.oblig.append(dict(label="VP:" + self.strlit(st, args[1]), pc=list(st.pc), cond=self.bool_of(args[0]), kind="VP"))
            return None
        if name == "vp_reach":
            self.reach.append((self.strlit(st, args[0]), list(st.pc)))
            return None
        if name in ("vp_feq", "vp_deq"):
            # exact equality in symbolic modes (tolerance only in the native replay runtime)
            if self.mode == "FP":
                return self.i1(z3.Or(z3.fpEQ(args[0], args[1]), z3.And(z3.fpIsNaN(args[0]), z3.fpIsNaN(args[1]))))
            return self.i1(args[0] == args[1])
        if name in ("vp_fle", "vp_dle"):
            if self.mode == "FP":
                return self.i1(z3.fpLEQ(args[0], args[1]))
            if self.mode == "UF":
                raise Inconclusive("order in UF mode")
            return self.i1(args[0] <= args[1])
        if name == "snprintf":
            # formatting is captured, not executed: the harness callback vp_on_snprintf(fmt, mantissa, suffix) / vp_on_snprintf1(fmt, value) states the obligations
            cbn = "vp_on_snprintf" if len(args) == 5 else "vp_on_snprintf1"
            cb = self.m.funcs.get(cbn)
            if cb is None or cb.is_decl:
                raise Inconclusive("snprintf without a harness callback")
            cargs = [args[2]] + args[3:]
            # coerce to the callback's parameter kinds
            for i, (pt, _, _) in enumerate(cb.params[1:], start=1):
                a = cargs[i]
                if pt.is_fp and z3.is_fp(a) and a.sort() != self.fsort(pt):
                    a = z3.fpFPToFP(RNE, a, self.fsort(pt))
                cargs[i] = a
            saved = st.vals
            rs = self.call(st, cb, cargs)
            st.vals = saved
            if not rs:
                return ("dead",)
            return self.iconst(0, 32)
        if name.startswith("llvm."):
            return self.intrinsic(st, ins, name, args)
        if name in ("sqrtf", "sqrt", "sinf", "sin", "cosf", "cos", "fabsf", "fabs", "floorf", "floor", "ceilf", "ceil", "roundf", "round",
                    "tanf", "tan", "acosf", "acos", "asinf", "asin", "atanf", "atan", "expf", "exp", "logf", "log", "truncf", "trunc"):
            base = name[:-1] if name.endswith("f") and name not in ("ceilf"[:-1],) and name[:-1] in ("sqrt", "sin", "cos", "fabs", "floor", "ceil", "round", "tan", "acos", "asin", "atan", "exp", "log", "trunc") else name
            return self.fun1(base, args[0], ty)
        if name in ("powf", "pow", "atan2f", "atan2", "fmodf", "fmod"):
            key = (name,)
            if self.mode == "UF":
                return self.uf(name, args)
            if key not in self.ufs:
                s = self.fsort(ty)
                self.ufs[key] = z3.Function(name, s, s, s)
                self.assumptions.add("%s uninterpreted" % name)
            r = self.ufs[key](*args)
            if name in ("powf", "pow") and self.mode == "FP":
                a, e = args
                zero, one = z3.FPVal(0.0, self.fsort(ty)), z3.FPVal(1.0, self.fsort(ty))
                self.side.append(z3.Implies(z3.And(z3.fpIsZero(a), z3.fpGT(e, zero)), z3.fpEQ(r, zero)))
                self.side.append(z3.Implies(z3.fpEQ(a, one), z3.fpEQ(r, one)))
                self.side.append(z3.Implies(z3.fpGEQ(a, zero), z3.And(z3.fpGEQ(r, zero), z3.Not(z3.fpIsNaN(r)))))
                for (a2, e2, r2) in self.pow_apps:
                    self.side.append(z3.Implies(z3.And(z3.fpEQ(e, e2), z3.fpGT(e, zero), z3.fpGEQ(a, zero), z3.fpLEQ(a, a2)), z3.fpLEQ(r, r2)))
                    self.side.append(z3.Implies(z3.And(z3.fpEQ(e, e2), z3.fpGT(e, zero), z3.fpGEQ(a2, zero), z3.fpLEQ(a2, a)), z3.fpLEQ(r2, r)))
                self.pow_apps.append((a, e, r))
                self.assumptions.add("powf contract: pow(+-0,e>0)=0, pow(1,e)=1, non-negative and monotone in the base on [0,inf) for a fixed positive exponent")
            return r
        g = self.m.funcs.get(name)
        if g is None or g.is_decl:
            raise Inconclusive("call to external %s" % name)
        # defined callee: execute; must return on exactly one path to continue inline
        saved = st.vals
        rs = self.call(st, g, args)
        if len(rs) == 1:
            s2, rv = rs[0]
            if s2 is not st:
                st.vals, st.mem, st.pc, st.nobj = s2.vals, s2.mem, s2.pc, s2.nobj
            st.vals = saved
            return rv
        if len(rs) == 0:
            return ("dead",)
        # merge return paths: values by ite over path conditions, memory cells likewise
        base_len = None
        return self.merge_returns(st, saved, rs)

    def merge_returns(self, st, saved, rs):
        # common prefix of path conditions
        pcs = [s.pc for s, _ in rs]
        k = 0
        while all(len(p) > k for p in pcs) and all(p[k] is pcs[0][k] or p[k].eq(pcs[0][k]) for p in pcs):
            k += 1
        conds = [z3.And(*p[k:]) if len(p) > k else z3.BoolVal(True) for p in pcs]
        s0, rv0 = rs[-1]
        rv = rv0
        mem = {kk: o for kk, o in s0.mem.items()}
        for (s, r), c in list(zip(rs, conds))[-2::-1]:
            if rv is not None:
                rv = self.ite(c, r, rv)
            for kk in set(mem) | set(s.mem):
                oa, ob = s.mem.get(kk), mem.get(kk)
                if oa is None or ob is None:
                    mem[kk] = oa or ob
                    continue
                if oa.cells is ob.cells:
                    continue
                o2 = Obj(oa.name, oa.size)
                for off in set(oa.cells) | set(ob.cells):
                    ca, cb = oa.cells.get(off), ob.cells.get(off)
                    if ca is None or cb is None:
                        o2.cells[off] = ca or cb
                    elif ca[0] is cb[0]:
                        o2.cells[off] = ca
                    else:
                        o2.cells[off] = (self.ite(c, ca[0], cb[0]), ca[1])
                mem[kk] = o2
        st.mem = mem
        st.pc = list(pcs[0][:k]) + [z3.Or(*conds)]
        st.nobj = max(s.nobj for s, _ in rs)
        st.vals = saved
        return rv

    def intrinsic(self, st, ins, name, args):
        n = name.split(".")
        n1 = n[1]
        ty = ins.ty
        if n1 in ("lifetime", "dbg", "assume", "experimental", "invariant", "donothing"):
            return None
        if n1 in ("fabs", "sqrt", "floor", "ceil", "trunc", "round", "sin", "cos"):
            if ty.kind == "vector":
                return [self.fun1(n1, x, ty.elem) for x in args[0]]
            return self.fun1(n1, args[0], ty)
        if n1 in ("minnum", "maxnum"):
            a, b = args
            if isinstance(a, RInf) or isinstance(b, RInf):
                lt = self.fcmp("olt", a, b)
                return self.ite(lt if n1 == "minnum" else z3.Not(lt), a, b)
            if self.mode == "REAL":
                return z3.If(a < b, a, b) if n1 == "minnum" else z3.If(a > b, a, b)
            if self.mode == "FP":
                return z3.fpMin(a, b) if n1 == "minnum" else z3.fpMax(a, b)
            return self.uf(n1, [a, b], True)
        if n1 in ("umax", "umin", "smax", "smin"):
            a, b = args
            pred = {"umax": "ugt", "umin": "ult", "smax": "sgt", "smin": "slt"}[n1]
            if ty.kind == "vector":
                return [z3.If(self.icmp(pred, x, y, ty.elem), x, y) for x, y in zip(a, b)]
            return z3.If(self.icmp(pred, a, b, ty), a, b)
        if n1 == "abs":
            a = args[0]
            if self.int_mode == "INT":
                M = 1 << ty.bits
                return z3.If(a >= M // 2, (M - a) % M, a)
            return z3.If(a < 0, -a, a)
        if n1 == "fmuladd":
            return self.fbin("fadd", self.fbin("fmul", args[0], args[1], ty), args[2], ty)
        if n1 in ("memcpy", "memmove"):
            d, s, nb = args[0], args[1], self.concrete_int(args[2])
            if nb is None:
                raise Inconclusive("symbolic memcpy length")
            so = self.obj(st, s)
            cells = [(off - s.off, so.cells[off]) for off in sorted(so.cells) if off >= s.off and off < s.off + nb]
            for (ro, (v, t)) in cells:
                self.store(st, Ptr(d.obj, d.off + ro), v, t)
            return None
        if n1 == "memset":
            d, c, nb = args[0], self.concrete_int(args[1]), self.concrete_int(args[2])
            if nb is None or c != 0:
                raise Inconclusive("memset")
            o = self.obj(st, d)
            for off in list(o.cells):
                if off >= d.off and off < d.off + nb:
                    v, t = o.cells[off]
                    o.cells[off] = (self.const(llir.Val("zero", t)), t)
            # unknown layout: leave uninitialised cells to be created as zero on demand is not tracked; record
            o.zero_range = getattr(o, "zero_range", []) + [(d.off, d.off + nb)]
            return None
        if n1 == "x86":
            nm = "_".join(n[2:])
            if nm in ("sse_rcp_ss", "sse_rsqrt_ss"):
                vec = list(args[0])
                vec[0] = self.approx(nm, vec[0])
                return vec
            raise Inconclusive("x86 intrinsic " + name)
        if n1 == "trap":
            self.oblig.append(dict(label="TRAP:llvm.trap", pc=list(st.pc), cond=z3.BoolVal(False), kind="UB"))
            return ("dead",)
        if n1 == "expect":
            return args[0]
        if n1 == "copysign":
            if self.mode == "REAL":
                a, b = args
                return z3.If(b >= 0, z3.If(a >= 0, a, -a), z3.If(a >= 0, -a, a))
            if self.mode == "FP":
                a, b = args
                return z3.If(z3.fpIsNegative(b), z3.fpNeg(z3.fpAbs(a)), z3.fpAbs(a))
        raise Inconclusive("intrinsic " + name)

    def approx(self, nm, x):
        """rcpss / rsqrtss: REAL mode idealises them as exact (accuracy is a separate ERR obligation);
        ERRMODEL attribute switches to the Intel SDM contract |r*a-1| <= 1.5*2^-12"""
        if self.mode == "REAL":
            err = getattr(self, "approx_err", None)
            r = self.new("apx", z3.RealSort())
            if nm == "sse_rcp_ss":
                if err is None:
                    self.side.append(r * x == 1)
                else:
                    self.side.append(z3.And(r * x - 1 <= err, r * x - 1 >= -err))
            else:
                s = self.fun1("sqrt", x, llir.FLOAT)
                if err is None and z3.is_rational_value(s) and s.numerator_as_long() != 0:
                    return z3.RealVal(1) / s
                if err is None:
                    self.side.append(r * s == 1)
                else:
                    self.side.append(z3.And(r * s - 1 <= err, r * s - 1 >= -err))
            self.assumptions.add("%s: %s" % (nm, "exact reciprocal (REAL idealisation)" if err is None else "relative error <= %s (Intel SDM)" % err))
            return r
        if self.mode == "UF":
            return self.uf(nm, [x])
        key = (nm,)
        if key not in self.ufs:
            self.ufs[key] = z3.Function(nm, F32, F32)
            self.assumptions.add("%s uninterpreted in FP mode" % nm)
        return self.ufs[key](x)


# ---------------------------------------------------------------------------
def model_value_bits(m, kind, e, mode):
    """replay value (raw bits as unsigned int) for an input from a z3 model"""
    v = m.eval(e, model_completion=True)
    if kind[0] == "u":
        if z3.is_bv_value(v):
            return v.as_long()
        if z3.is_int_value(v):
            return v.as_long()
        return 0
    dbl = kind == "f64"
    if z3.is_fp(v) or isinstance(v, z3.FPNumRef):
        try:
            bv = m.eval(z3.fpToIEEEBV(e), model_completion=True)
            return bv.as_long()
        except Exception:
            return 0
    if z3.is_rational_value(v) or z3.is_algebraic_value(v):
        if z3.is_algebraic_value(v):
            v = v.approx(30)
        f = float(fractions.Fraction(v.numerator_as_long(), v.denominator_as_long()))
        return struct.unpack("<Q", struct.pack("<d", f))[0] if dbl else struct.unpack("<I", struct.pack("<f", f))[0]
    return 0


def check_entry(ll_path, entry, mode="FP", int_mode="BV", timeout_ms=60000, approx_err=None, max_paths=512):
    t0 = time.time()
    mod = llir.parse_file(ll_path)
    ex = Exec(mod, mode, int_mode, max_paths=max_paths)
    if approx_err is not None:
        ex.approx_err = z3.RealVal(approx_err)
    out = dict(entry=entry, mode=mode, int_mode=int_mode, obligations=[], reach=[], inconclusive=None)
    try:
        ex.run_entry(entry)
    except Inconclusive as e:
        out["inconclusive"] = str(e)
    except IRError as e:
        out["inconclusive"] = "IR: " + str(e)
    out["paths"] = ex.paths_done
    out["functions"] = sorted(ex.funcs_encoded)
    out["assumptions"] = sorted(ex.assumptions)
    nq = 0
    tsolve = 0.0
    for ob in ex.oblig:
        s = z3.Solver()
        s.set("timeout", timeout_ms)
        s.add(*ob["pc"])
        s.add(*ex.side)
        s.add(z3.Not(ob["cond"]))
        t1 = time.time()
        r = s.check()
        if r == z3.unknown and os.environ.get("VP_DUMP_SMT"):
            open(os.path.join(os.environ["VP_DUMP_SMT"], "%s_%d.smt2" % (entry, nq)), "w").write(s.to_smt2())
        tsolve += time.time() - t1
        nq += 1
        rec = dict(label=ob["label"], kind=ob["kind"], status="holds" if r == z3.unsat else "violated" if r == z3.sat else "unknown")
        if r == z3.sat:
            m = s.model()
            if ob.get("robust") is not None:
                s.add(ob["robust"])
                if s.check() == z3.sat:
                    m = s.model()
                nq += 1
            rec["inputs"] = [model_value_bits(m, k, e, mode) for (k, e) in ex.inputs]
            rec["model"] = {str(e): str(m.eval(e, model_completion=True)) for (k, e) in ex.inputs[:24]}
        out["obligations"].append(rec)
    for (label, pc) in ex.reach:
        s = z3.Solver()
        s.set("timeout", min(timeout_ms, 20000))
        s.add(*pc)
        s.add(*ex.side)
        r = s.check()
        nq += 1
        out["reach"].append(dict(label=label, status="reachable" if r == z3.sat else "unreachable" if r == z3.unsat else "unknown"))
    out["queries"] = nq
    out["solver_s"] = round(tsolve, 3)
    out["wall_s"] = round(time.time() - t0, 3)
    out["steps"] = ex.steps
    return out


if __name__ == "__main__":
    import argparse
    ap = argparse.ArgumentParser()
    ap.add_argument("ll")
    ap.add_argument("entry")
    ap.add_argument("--mode", default="FP")
    ap.add_argument("--int-mode", default="BV")
    ap.add_argument("--timeout-ms", type=int, default=60000)
    ap.add_argument("--approx-err", default=None)
    ap.add_argument("--max-paths", type=int, default=512)
    a = ap.parse_args()
    r = check_entry(a.ll, a.entry, a.mode, a.int_mode, a.timeout_ms, a.approx_err, a.max_paths)
    print(json.dumps(r))
