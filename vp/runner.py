"""Check runner: builds harness TUs from /repo's working tree, translates, runs the
solvers, replays counterexamples, applies known findings, writes evidence."""
import os, sys, json, re, time, shutil, subprocess, tempfile, hashlib, atexit, random
from concurrent.futures import ThreadPoolExecutor

HERE = os.path.dirname(os.path.abspath(__file__))
ROOT = os.path.dirname(HERE)
REPO = os.environ.get("VP_REPO", "/repo")
sys.path.insert(0, HERE)
import llir, ll2c  # noqa

CLANG = "clang++-14"
CLANG_FLAGS = ["-std=c++17", "-O1", "-fno-vectorize", "-fno-slp-vectorize", "-fno-unroll-loops",
               "-ffp-contract=off", "-fno-access-control", "-DRKCOMMON_VERIF", "-Wno-everything"]
CBMC_FLAGS = ["--unwinding-assertions", "--signed-overflow-check", "--undefined-shift-check",
              "--drop-unused-functions", "--no-malloc-may-fail", "--json-ui", "--trace", "--verbosity", "8"]
NCPU = int(os.environ.get("VP_JOBS", "16"))


class Entry:
    def __init__(self, name, unwind=4, unwindset=None, timeout=600, flags=(), witness=True, desc="", bounds="", paths=False):
        self.paths = paths
        self.name = name
        self.unwind = unwind
        self.unwindset = unwindset or {}
        self.timeout = timeout
        self.flags = list(flags)
        self.witness = witness
        self.desc = desc
        self.bounds = bounds


class CbmcUnit:
    kind = "cbmc"

    def __init__(self, name, src, entries, defines=(), heap_max=64, opaque=(), race=False, threads=False,
                 validate=True, extra_src=(), assumptions=(), stubs=(), native_defines=(), cbmc_flags=(), mem_unwind=None, object_bits=8, elem_unwind=6, c_defines=()):
        self.c_defines = list(c_defines)
        self.elem_unwind = elem_unwind
        self.object_bits = object_bits
        self.mem_unwind = mem_unwind if mem_unwind is not None else 18
        self.name = name
        self.src = src
        self.entries = entries
        self.defines = list(defines)
        self.heap_max = heap_max
        self.opaque = list(opaque)
        self.race = race
        self.threads = threads
        self.validate = validate
        self.assumptions = list(assumptions)
        self.stubs = list(stubs)
        self.native_defines = list(native_defines)
        self.cbmc_flags = list(cbmc_flags)


class Work:
    """scratch directory outside /repo and /verif, removed on exit"""

    def __init__(self):
        self.dir = tempfile.mkdtemp(prefix="vp_", dir=os.environ.get("VP_TMP", "/tmp"))
        atexit.register(lambda: shutil.rmtree(self.dir, ignore_errors=True))
        inc = os.path.join(self.dir, "inc", "rkcommon")
        os.makedirs(inc)
        ver = open(os.path.join(REPO, "rkcommon", "version.h.in")).read()
        mj, mn, pt = "1", "14", "1"
        mo = re.search(r"project\(rkcommon VERSION (\d+)\.(\d+)\.(\d+)", open(os.path.join(REPO, "CMakeLists.txt")).read())
        if mo:
            mj, mn, pt = mo.groups()
        ver = ver.replace("@PROJECT_VERSION_MAJOR@", mj).replace("@PROJECT_VERSION_MINOR@", mn) \
            .replace("@PROJECT_VERSION_PATCH@", pt).replace("@PROJECT_VERSION@", "%s.%s.%s" % (mj, mn, pt))
        open(os.path.join(inc, "version.h"), "w").write(ver)
        self.inc = os.path.join(self.dir, "inc")

    def path(self, *a):
        return os.path.join(self.dir, *a)


def run(cmd, timeout=None, env=None, cwd=None, mem_gb=None):
    t0 = time.time()
    pre = None
    if mem_gb:
        import resource

        def pre():
            resource.setrlimit(resource.RLIMIT_AS, (int(mem_gb * 2 ** 30), int(mem_gb * 2 ** 30)))
    try:
        p = subprocess.run(cmd, stdout=subprocess.PIPE, stderr=subprocess.PIPE, timeout=timeout, env=env, cwd=cwd,
                           preexec_fn=pre)
        return p.returncode, p.stdout.decode("utf8", "replace"), p.stderr.decode("utf8", "replace"), time.time() - t0
    except subprocess.TimeoutExpired as e:
        return -9, (e.stdout or b"").decode("utf8", "replace"), "TIMEOUT", time.time() - t0


def clang_ir(work, src, defines, out):
    cmd = [CLANG] + CLANG_FLAGS + ["-I" + REPO, "-I" + work.inc, "-I" + os.path.join(ROOT, "harness")] + \
          ["-D" + d for d in defines] + ["-S", "-emit-llvm", src, "-o", out]
    rc, so, se, dt = run(cmd, timeout=300)
    if rc != 0:
        raise RuntimeError("clang failed for %s:\n%s" % (src, se[-3000:]))
    return dt


def fn_hashes(mod, names):
    """hash of the IR body of the named functions (evidence: functions encoded)"""
    out = {}
    for n in names:
        f = mod.funcs.get(n)
        if f is None or f.is_decl:
            continue
        h = hashlib.sha1()
        for ins in f.instrs():
            h.update(repr(ins).encode())
        out[n] = h.hexdigest()[:12]
    return out


import threading
_BUILD_LOCK = threading.Lock()


class CbmcVariant:
    """one compiled variant (set of defines) of a unit"""

    def __init__(self, work, unit, extra_defines=()):
        self.work = work
        self.unit = unit
        self.defs = list(unit.defines) + list(extra_defines)
        tag = hashlib.sha1((" ".join(self.defs) + unit.name).encode()).hexdigest()[:8]
        self.base = work.path("%s_%s" % (unit.name, tag))
        self.built = False
        self.encoded = {}

    def build(self):
        if self.built:
            return
        u = self.unit
        src = os.path.join(ROOT, u.src)
        ll = self.base + ".ll"
        clang_ir(self.work, src, self.defs, ll)
        mn = ll2c.model_names_from(os.path.join(HERE, "models", "models.c"))
        mod = llir.parse_file(ll)
        g = ll2c.CGen(mod, opaque=u.opaque, shared_race=u.race)
        entries = [n for n, f in mod.funcs.items() if n.startswith("vp_main") and not f.is_decl]
        callbacks = [n for n, f in mod.funcs.items() if n.startswith("vp_") and not n.startswith("vp_main") and not f.is_decl]   # harness callbacks called from models
        txt = g.generate(entries + callbacks, mn)
        self.missing = [m for m in g.missing if not g.is_opaque_fn(m)]
        self.opaque_used = [m for m in g.missing if g.is_opaque_fn(m)] + \
                           [n for n in mod.funcs if g.is_opaque_fn(n) and not mod.funcs[n].is_decl]
        self.c = self.base + ".c"
        open(self.c, "w").write(txt)
        # byte/element copy helpers get their own (larger) unwinding bound: --unwindset
        helpers = set(re.findall(r"static void (vp_(?:copy|zero)_\w+)\(", txt))
        self.helper_loops = ["vp_race_acc.0", "vp_memcpy.0", "vp_memmove.0", "vp_memmove.1", "vp_memset.0", "vp_str_copy.0", "vp_str_move.0", "vp_str_move.1"]
        for hname in sorted(helpers):
            self.helper_loops += [hname + ".0"] + ([hname + ".1"] if hname.startswith("vp_copy_") else [])
        funcs, _ = g.reachable(entries)
        self.encoded = fn_hashes(mod, funcs)
        self.entries_present = set(entries)
        self.mod = mod
        cdefs = ["-DVP_HEAP_MAX=%d" % u.heap_max, "-DVP_NOBJ=%d" % (1 << u.object_bits)]
        if u.threads:
            cdefs.append("-DVP_THREADS")
        if u.race:
            cdefs.append("-DVP_RACE")
        cdefs += ["-D" + d for d in u.c_defines]
        self.gb = self.base + ".gb"
        self.gbw = self.base + "_w.gb"
        inc = ["-I", os.path.join(HERE, "models")]
        rc, so, se, dt = run(["goto-cc", self.c, "-o", self.gb] + inc + cdefs, timeout=600)
        if rc != 0:
            raise RuntimeError("goto-cc failed for %s:\n%s" % (self.c, (so + se)[-3000:]))
        rc2, so2, se2, dt2 = run(["goto-instrument", "--show-loops", self.gb], timeout=300)
        existing = set(re.findall(r"Loop (\S+):", so2))
        self.helper_loops = [l for l in self.helper_loops if l in existing]
        rc, so, se, dt = run(["goto-cc", self.c, "-o", self.gbw, "-DVP_WITNESS"] + inc + cdefs, timeout=600)
        if rc != 0:
            raise RuntimeError("goto-cc (witness) failed:\n%s" % (so + se)[-3000:])
        self.built = True

    # ---- native builds (replay + translation validation)
    def build_native(self):
        with _BUILD_LOCK:
            return self._build_native()

    def _build_native(self):
        if getattr(self, "native", None):
            return self.native
        u = self.unit
        src = os.path.join(ROOT, u.src)
        exe = self.base + "_native"
        cmd = ["g++", "-std=c++17", "-O1", "-g", "-fsanitize=address,undefined", "-fno-sanitize-recover=undefined",
               "-fno-access-control", "-DRKCOMMON_VERIF", "-w", "-rdynamic",
               "-I" + REPO, "-I" + self.work.inc, "-I" + os.path.join(ROOT, "harness")] + \
              ["-D" + d for d in self.defs + u.native_defines] + \
              [src, os.path.join(HERE, "rt", "native_rt.cpp"), "-o", exe, "-ldl", "-lpthread"] + list(getattr(u, "native_libs", []))
        rc, so, se, dt = run(cmd, timeout=600)
        if rc != 0:
            raise RuntimeError("native build failed:\n%s" % se[-3000:])
        self.native = exe
        return exe

    def build_cnative(self):
        with _BUILD_LOCK:
            return self._build_cnative()

    def _build_cnative(self):
        if getattr(self, "cnative", None):
            return self.cnative
        exe = self.base + "_cnative"
        cmd = ["gcc", "-O0", "-w", "-rdynamic", "-DVP_NATIVE", "-DVP_HEAP_MAX=%d" % self.unit.heap_max,
               "-I" + os.path.join(HERE, "models"), self.c, os.path.join(HERE, "rt", "native_rt.c"), "-o", exe, "-ldl", "-lm"]
        rc, so, se, dt = run(cmd, timeout=600)
        if rc != 0:
            raise RuntimeError("gcc build of ll2c output failed:\n%s" % se[-3000:])
        self.cnative = exe
        return exe


def classify(desc):
    for p in ("VP:", "UB:", "MEM:", "TRAP:", "BOUND:", "HARNESS:", "REACH:", "RACE:"):
        if desc.startswith(p):
            return p[:-1], desc[len(p):]
    if "unwinding assertion" in desc or "recursion unwinding" in desc:
        return "BOUND", desc
    return "CBMC", desc


def parse_cbmc_json(txt):
    try:
        data = json.loads(txt)
    except Exception:
        # truncated output (timeout): try to salvage nothing
        return None, None, {}
    results = None
    stats = {}
    for item in data:
        if isinstance(item, dict):
            if "result" in item:
                results = item["result"]
            if "messageText" in item:
                mt = item["messageText"]
                mo = re.search(r"Generated (\d+) VCC\(s\), (\d+) remaining", mt)
                if mo:
                    stats["vccs"] = int(mo.group(1))
                    stats["vccs_nontrivial"] = int(mo.group(2))
                mo = re.search(r"size of program expression: (\d+) steps", mt)
                if mo:
                    stats["steps"] = int(mo.group(1))
                mo = re.search(r"(\d+) variables, (\d+) clauses", mt)
                if mo:
                    stats["sat_vars"] = stats.get("sat_vars", 0) + int(mo.group(1))
                    stats["sat_clauses"] = stats.get("sat_clauses", 0) + int(mo.group(2))
                mo = re.search(r"Runtime decision procedure: ([0-9.]+)s", mt)
                if mo:
                    stats["solver_s"] = stats.get("solver_s", 0.0) + float(mo.group(1))
                mo = re.search(r"Runtime Solver: ([0-9.]+)s", mt)
                if mo:
                    stats["sat_s"] = stats.get("sat_s", 0.0) + float(mo.group(1))
            if item.get("messageType") == "ERROR":
                stats.setdefault("errors", []).append(item.get("messageText", ""))
    return results, data, stats


def trace_inputs(trace):
    """inputs recorded in vp_log by the model of vp_nondet_*"""
    vals = {}
    n = 0
    for st in trace or []:
        if st.get("stepType") != "assignment":
            continue
        lhs = st.get("lhs", "")
        mo = re.match(r"vp_log\[(\d+)[a-z]*\]$", lhs)
        v = st.get("value", {})
        if mo:
            b = v.get("binary")
            if b is not None:
                vals[int(mo.group(1))] = int(b, 2)
        elif lhs == "vp_nlog":
            b = v.get("binary")
            if b is not None:
                n = max(n, int(b, 2))
    return [vals.get(i, 0) for i in range(n)]


def run_cbmc_entry(var, entry, witness=False):
    u = var.unit
    gb = var.gbw if witness else var.gb
    cmd = ["cbmc", gb, "--function", "ir_" + entry.name, "--unwind", str(entry.unwind)]
    us = dict((l, (u.elem_unwind if l.startswith(("vp_copy_", "vp_zero_")) else u.mem_unwind)) for l in getattr(var, "helper_loops", []))
    us.update(entry.unwindset)
    if us:
        cmd += ["--unwindset", ",".join("%s:%d" % kv for kv in sorted(us.items()))]
    flags = [f for f in CBMC_FLAGS]
    if witness:
        flags = [f for f in flags if f not in ("--unwinding-assertions", "--signed-overflow-check",
                                               "--undefined-shift-check", "--trace")]
        flags += ["--no-standard-checks", "--no-unwinding-assertions"]
    if entry.paths:
        flags += ["--paths", "lifo"]
    cmd += ["--object-bits", str(u.object_bits)]
    cmd += flags + entry.flags + u.cbmc_flags
    rc, so, se, dt = run(cmd, timeout=entry.timeout, mem_gb=float(os.environ.get("VP_MEM_GB", "24")))
    results, data, stats = parse_cbmc_json(so)
    return dict(entry=entry, witness=witness, rc=rc, results=results, stats=stats, wall=dt,
                timeout=(rc == -9), raw_tail=(so[-2000:] + se[-2000:]) if results is None else "")


_attempt = [0]


def replay_native(var, entry, inputs, work, tag):
    exe = var.build_native()
    _attempt[0] += 1
    rf = work.path("replay_%s_%s.txt" % (entry.name, tag))
    open(rf, "w").write(" ".join(str(x) for x in inputs) + "\n")
    env = dict(os.environ, VP_REPLAY=rf, VP_REPS="400", VP_ATTEMPT=str(_attempt[0]), ASAN_OPTIONS="detect_leaks=0:abort_on_error=0:halt_on_error=0:detect_stack_use_after_return=1",
               UBSAN_OPTIONS="print_stacktrace=0:halt_on_error=1")
    rc, so, se, dt = run([exe, entry.name], timeout=120, env=env)
    verdict = "not_reproduced"
    what = ""
    if "VP_ASSUME_FAIL" in so and rc == 0:
        verdict = "assume_failed"
    elif "VP_ASSERT_FAIL" in so:
        verdict = "reproduced"
        what = re.search(r"VP_ASSERT_FAIL (.*)", so).group(1)
    elif "ERROR: AddressSanitizer" in se or "runtime error:" in se or "ERROR: LeakSanitizer" in se:
        verdict = "reproduced"
        mo = re.search(r"(ERROR: AddressSanitizer: [^\n]*|[^\n]*runtime error:[^\n]*)", se)
        what = mo.group(1)[:300] if mo else "sanitizer"
    elif rc not in (0,):
        verdict = "reproduced"
        what = "native exit status %d %s" % (rc, se[-200:])
    return verdict, what, rf


def validate_translation(var, work, seed, nruns=24):
    """DESIGN 2.5: ll2c output (gcc) vs the native C++ harness on seeded random inputs; traces must agree"""
    exe_cpp = var.build_native()
    exe_c = var.build_cnative()
    rnd = random.Random(seed)
    checked = 0
    disagreements = []
    for e in var.unit.entries:
        if e.name not in var.entries_present:
            continue
        for k in range(nruns):
            style = k % 3
            vals = []
            for i in range(64):
                if style == 0:
                    vals.append(rnd.choice([0, 1, 2, 3, 4, 5, 7, 8, 255, 2 ** 31 - 1, 2 ** 32 - 1, 2 ** 63, 2 ** 64 - 1]))
                elif style == 1:
                    vals.append(rnd.randrange(0, 6))
                else:
                    vals.append(rnd.getrandbits(rnd.choice([3, 8, 32, 64])))
            rf = work.path("tv_%s_%d.txt" % (e.name, k))
            open(rf, "w").write(" ".join(map(str, vals)))
            env = dict(os.environ, VP_REPLAY=rf, VP_TRACE="1", ASAN_OPTIONS="detect_leaks=0", UBSAN_OPTIONS="halt_on_error=0")
            r1 = run([exe_cpp, e.name], timeout=60, env=env)
            r2 = run([exe_c, e.name], timeout=60, env=env)

            def norm(s):
                out = []
                for line in s.splitlines():
                    if line.startswith(("A ", "R ", "VP_ASSERT_FAIL", "VP_ASSUME_FAIL", "VP_DONE")):
                        out.append(re.sub(r"[^A-Za-z0-9 _.,:;<>=+*/()\[\]!?&|#@%-]", "_", line))
                return out
            t1, t2 = norm(r1[1]), norm(r2[1])
            # sanitizer-detected UB on the C++ side makes the run incomparable
            if "runtime error" in r1[2] or "AddressSanitizer" in r1[2]:
                continue
            if r1[0] == -9 or r2[0] == -9:
                continue
            checked += 1
            if t1 != t2:
                disagreements.append(dict(entry=e.name, inputs=vals[:16], cpp=t1[-4:], c=t2[-4:], c_err=r2[2][-300:]))
    return checked, disagreements


# ---------------------------------------------------------------------------- SMT units (ll2smt)
class SmtEntry:
    def __init__(self, name, mode="FP", int_mode="BV", timeout_ms=30000, desc="", approx_err=None, max_paths=512, witness=True, wall=900, underflow_check=True, abstract_words=False):
        self.abstract_words = abstract_words
        self.underflow_check = underflow_check
        self.name, self.mode, self.int_mode, self.timeout_ms, self.desc = name, mode, int_mode, timeout_ms, desc
        self.approx_err, self.max_paths, self.witness, self.wall = approx_err, max_paths, witness, wall


class SmtUnit:
    kind = "smt"

    def __init__(self, name, src, entries, defines=(), assumptions=(), stubs=(), native_defines=(), clang_flags=()):
        self.name, self.src, self.entries = name, src, entries
        self.defines = list(defines)
        self.assumptions = list(assumptions)
        self.stubs = list(stubs)
        self.native_defines = list(native_defines)
        self.clang_flags = list(clang_flags)
        self.unit = self

    def run(self, work, rep, known, pool, seed):
        from check import keep_replay, kf_match
        tag = hashlib.sha1((" ".join(self.defines) + self.name).encode()).hexdigest()[:8]
        base = work.path("%s_%s" % (self.name, tag))
        ll = base + ".ll"
        src = os.path.join(ROOT, self.src)
        cmd = [CLANG] + CLANG_FLAGS + self.clang_flags + ["-I" + REPO, "-I" + work.inc, "-I" + os.path.join(ROOT, "harness")] + \
              ["-D" + d for d in self.defines] + ["-S", "-emit-llvm", src, "-o", ll]
        rc, so, se, dt = run(cmd, timeout=300)
        if rc != 0:
            raise RuntimeError("clang failed for %s:\n%s" % (src, se[-3000:]))
        mod = llir.parse_file(ll)
        present = set(n for n, f in mod.funcs.items() if not f.is_decl)
        var = _SmtNative(work, self, base)
        futs = []
        for e in self.entries:
            if e.name not in present:
                rep.errors.append("unit %s: entry %s not found" % (self.name, e.name))
                continue
            cmd = [sys.executable, os.path.join(HERE, "ll2smt.py"), ll, e.name, "--mode", e.mode, "--int-mode", e.int_mode,
                   "--timeout-ms", str(e.timeout_ms), "--max-paths", str(e.max_paths)]
            if e.approx_err is not None:
                cmd += ["--approx-err", str(e.approx_err)]
            env = dict(os.environ)
            if not e.underflow_check:
                env["VP_NO_UNDERFLOW_CHECK"] = "1"
            if e.abstract_words:
                env["VP_ABSTRACT_WORDS"] = "1"
            futs.append((e, pool.submit(run, cmd, e.wall, env)))
        rep.stubs.extend(self.stubs)
        rep.assumptions.extend(self.assumptions)
        uinfo = {"unit": self.name, "src": self.src, "defines": self.defines, "entries": []}
        kfs = [k for k in known if k.get("status") == "open" and k.get("unit") in (self.name, None)]
        for e, fu in futs:
            rc, so, se, dt = fu.result()
            try:
                r = json.loads(so)
            except Exception:
                rep.obligations += 1
                rep.inconclusive.append("%s/%s: %s" % (self.name, e.name, "wall timeout %ds" % e.wall if rc == -9 else "engine error: " + se[-400:]))
                print("INCONCLUSIVE %s/%s (%s)" % (self.name, e.name, "timeout" if rc == -9 else "engine error"))
                if rc != -9:
                    rep.errors.append("%s/%s ll2smt crashed: %s" % (self.name, e.name, se[-600:]))
                continue
            rep.queries += r["queries"]
            rep.solver_s += r["solver_s"]
            for fn in r["functions"]:
                rep.encoded[fn] = fn_hashes(mod, [fn]).get(fn, "")
            for a in r["assumptions"]:
                if a not in rep.assumptions:
                    rep.assumptions.append(a)
            obs = r["obligations"]
            nh = sum(1 for o in obs if o["status"] == "holds")
            rep.obligations += len(obs)
            rep.discharged += nh
            rep.vccs += len(obs)
            rep.vccs_nontrivial += len(obs)
            einfo = {"entry": e.name, "desc": e.desc, "mode": e.mode + "/" + e.int_mode, "paths": r["paths"], "obligations": len(obs), "holds": nh,
                     "wall_s": r["wall_s"], "solver_s": r["solver_s"]}
            rep.bounds.append("%s/%s: mode %s/%s, loop-free or constant-trip kernels, %d path(s), per-query cap %d ms" % (self.name, e.name, e.mode, e.int_mode, r["paths"], e.timeout_ms))
            if r["inconclusive"]:
                rep.obligations += 1
                rep.inconclusive.append("%s/%s: %s" % (self.name, e.name, r["inconclusive"]))
                print("INCONCLUSIVE %s/%s (%s)" % (self.name, e.name, r["inconclusive"][:200]))
            unk = [o for o in obs if o["status"] == "unknown"]
            for o in unk:
                rep.inconclusive.append("%s/%s [%s]: solver unknown within %d ms" % (self.name, e.name, o["label"], e.timeout_ms))
                print("INCONCLUSIVE %s/%s [%s]" % (self.name, e.name, o["label"]))
            if e.witness:
                okl = set(x["label"] for x in r["reach"] if x["status"] == "reachable")
                bad = sorted(set(x["label"] for x in r["reach"] if x["label"] not in okl))
                if not r["reach"] and not r["inconclusive"]:
                    rep.errors.append("%s/%s has no vp_reach witness" % (self.name, e.name))
                if bad:
                    rep.errors.append("%s/%s VACUOUS: %s" % (self.name, e.name, bad))
            viol = [o for o in obs if o["status"] == "violated"]
            einfo["status"] = "fails" if viol else ("holds" if not unk and not r["inconclusive"] else "inconclusive")
            uinfo["entries"].append(einfo)
            rep.samples.append({"unit": self.name, "entry": e.name, "what": e.desc, "mode": e.mode, "obligations": len(obs),
                                "labels": sorted(set(o["label"] for o in obs))[:10], "status": einfo["status"]})
            if not viol:
                continue
            # group by known finding; replay one representative per group
            groups = {}
            for o in viol:
                hit = None
                for k in kfs:
                    if k.get("entry") in (e.name, None, "*") and kf_match(k, o["label"], o["label"].split(":", 1)[-1]):
                        hit = k
                        break
                groups.setdefault(hit["id"] if hit else None, (hit, []))[1].append(o)
            for kid, (k, items) in groups.items():
                rep_ok = None
                for o in items[:3]:
                    verdict, what, rf = replay_native(var, e, o.get("inputs", []), work, "%d" % (hash(o["label"]) & 0xffffff))
                    rep.replayed += 1
                    if verdict == "reproduced":
                        rep_ok = (o, what, rf)
                        break
                labels = sorted(set(o["label"] for o in items))
                if rep_ok is None:
                    rep.errors.append("%s/%s: counterexample for %s did not reproduce natively - encoding, contract or harness is wrong (model %s)"
                                      % (self.name, e.name, labels[:4], items[0].get("model")))
                    continue
                o, what, rf = rep_ok
                if k is not None:
                    print("KNOWN-FINDING: property=%s %s [%s/%s: %s]" % (rep.pid, k.get("what", kid), self.name, e.name, o["label"]))
                    rep.known_hit.append(kid)
                else:
                    dst = keep_replay(rep.pid, rf, o["label"])
                    open(dst, "a").write("# unit=%s entry=%s failing=%s native=%s\n" % (self.name, e.name, o["label"], what))
                    print("VIOLATION property=%s replay=%s" % (rep.pid, dst))
                    print("  obligation: %s/%s [%s] (+%d related) -> %s ; model %s" % (self.name, e.name, o["label"], len(labels) - 1, what, o.get("model")))
                    rep.violations.append((o["label"], dst))
        rep.units.append(uinfo)


class _SmtNative:
    """native replay build for an SMT unit (same interface as CbmcVariant.build_native)"""

    def __init__(self, work, unit, base):
        self.work, self.unit, self.base = work, unit, base
        self.defs = list(unit.defines)
        self.native = None

    def build_native(self):
        with _BUILD_LOCK:
            return self._build_native()

    def _build_native(self):
        if self.native:
            return self.native
        u = self.unit
        exe = self.base + "_native"
        cmd = ["g++", "-std=c++17", "-O1", "-g", "-fsanitize=address,undefined", "-fno-sanitize-recover=undefined", "-fsanitize-recover=address", "-ffp-contract=off",
               "-fno-access-control", "-DRKCOMMON_VERIF", "-w", "-rdynamic", "-I" + REPO, "-I" + self.work.inc, "-I" + os.path.join(ROOT, "harness")] + \
              ["-D" + d for d in self.defs + u.native_defines] + [os.path.join(ROOT, u.src), os.path.join(HERE, "rt", "native_rt.cpp"), "-o", exe, "-ldl", "-lpthread"] + list(getattr(u, "native_libs", []))
        rc, so, se, dt = run(cmd, timeout=600)
        if rc != 0:
            raise RuntimeError("native build failed:\n%s" % se[-3000:])
        self.native = exe
        return exe


# ---------------------------------------------------------------------------- path units (llpath)
class PathEntry:
    def __init__(self, name, desc="", wall=600, max_steps=3000000, max_paths=20000, witness=True, bounds=""):
        self.name, self.desc, self.wall, self.max_steps, self.max_paths, self.witness, self.bounds = name, desc, wall, max_steps, max_paths, witness, bounds


class PathUnit:
    """harness TU -> clang IR (libstdc++ templates instantiated in the TU: -D_GLIBCXX_ASSERTIONS) -> vp/llpath.py:
    every feasible path through the real code is executed symbolically; z3 decides branch feasibility and obligations"""
    kind = "path"

    def __init__(self, name, src, entries, defines=(), assumptions=(), stubs=(), native_defines=(), clang_flags=(), opaque=(), validate=True, glibcxx_assertions=True,
                 tolerate=(), replay_repeat=1, native_libs=()):
        self.native_libs = list(native_libs)
        self.tolerate = list(tolerate)
        self.replay_repeat = replay_repeat
        self.name, self.src, self.entries = name, src, entries
        self.defines = list(defines) + (["_GLIBCXX_ASSERTIONS"] if glibcxx_assertions else [])
        self.assumptions = list(assumptions)
        self.stubs = list(stubs)
        self.native_defines = list(native_defines)
        self.clang_flags = list(clang_flags)
        self.opaque = list(opaque)
        self.validate = validate
        self.unit = self

    def validate_entry(self, exe, work, ll, opq, seed, e, nruns=8):
        """concrete differential execution: llpath in replay mode vs the native C++ harness on seeded inputs"""
        rnd = random.Random("%s/%s" % (seed, e.name))
        checked, dis = 0, []
        files, native = [], {}

        def norm(s):
            return [re.sub(r"[^A-Za-z0-9 _.,:;<>=+*/()\[\]!?&|#@%-]", "_", l) for l in s.splitlines()
                    if l.startswith(("A ", "R ", "VP_ASSERT_FAIL", "VP_ASSUME_FAIL", "VP_DONE"))]
        for k in range(nruns):
            vals = [rnd.randrange(0, 3) if k % 2 == 0 else rnd.choice([0, 1, 2, 3, 5, 47, 46, 58, 44, 97, 255, rnd.getrandbits(8), rnd.getrandbits(32)]) for _ in range(64)]
            rf = work.path("pv_%s_%d.txt" % (e.name, k))
            open(rf, "w").write(" ".join(map(str, vals)))
            env = dict(os.environ, VP_REPLAY=rf, VP_TRACE="1", ASAN_OPTIONS="detect_leaks=0", UBSAN_OPTIONS="halt_on_error=0")
            r1 = run([exe, e.name], timeout=60, env=env)
            if "runtime error" in r1[2] or "AddressSanitizer" in r1[2] or r1[0] == -9:
                continue
            files.append(rf)
            native[rf] = (norm(r1[1]), vals)
        if not files:
            return 0, []
        r2 = run([sys.executable, os.path.join(HERE, "llpath.py"), ll, e.name, "--replay", ",".join(files), "--support", self.support_ll, "--wall", "60"] + (["--opaque", opq] if opq else []), timeout=300)
        cur = None
        got = {}
        for l in r2[1].splitlines():
            if l.startswith("== "):
                cur = l[3:]
                got[cur] = []
            elif cur is not None:
                got[cur].append(l)
        for rf in files:
            lines = got.get(rf)
            if lines is None:
                dis.append(dict(entry=e.name, err="engine produced no trace: " + r2[2][-300:]))
                continue
            if any(l.startswith("INCONCLUSIVE") for l in lines):
                continue
            checked += 1
            t2 = norm("\n".join(lines))
            t1, vals = native[rf]
            if t1 != t2:
                dis.append(dict(entry=e.name, inputs=vals[:12], cpp=t1[-3:], engine=t2[-3:]))
        return checked, dis

    def run(self, work, rep, known, pool, seed):
        from check import keep_replay, kf_match
        tag = hashlib.sha1((" ".join(self.defines) + self.name).encode()).hexdigest()[:8]
        base = work.path("%s_%s" % (self.name, tag))
        ll = base + ".ll"
        src = os.path.join(ROOT, self.src)
        cmd = [CLANG] + CLANG_FLAGS + self.clang_flags + ["-I" + REPO, "-I" + work.inc, "-I" + os.path.join(ROOT, "harness")] + \
              ["-D" + d for d in self.defines] + ["-S", "-emit-llvm", src, "-o", ll]
        rc, so, se, dt = run(cmd, timeout=300)
        if rc != 0:
            raise RuntimeError("clang failed for %s:\n%s" % (src, se[-3000:]))
        mod = llir.parse_file(ll)
        present = set(n for n, f in mod.funcs.items() if not f.is_decl)
        opq = None
        if self.opaque:
            opq = base + ".opaque"
            open(opq, "w").write("\n".join(self.opaque) + "\n")
        # out-of-line libstdc++ helpers (red-black tree maintenance) as IR
        self.support_ll = base + "_support.ll"
        rc, so, se, dt = run([CLANG] + CLANG_FLAGS + ["-fno-exceptions", "-S", "-emit-llvm", os.path.join(HERE, "models", "support.cpp"), "-o", self.support_ll], timeout=120)
        if rc != 0:
            raise RuntimeError("clang failed for support.cpp:\n%s" % se[-2000:])
        var = _SmtNative(work, self, base)
        futs = []
        for e in self.entries:
            if e.name not in present:
                rep.errors.append("unit %s: entry %s not found" % (self.name, e.name))
                continue
            out = base + "_" + e.name + ".json"
            cmd = [sys.executable, os.path.join(HERE, "llpath.py"), ll, e.name, "--support", self.support_ll, "--json", out, "--wall", str(e.wall), "--max-steps", str(e.max_steps), "--max-paths", str(e.max_paths)]
            if opq:
                cmd += ["--opaque", opq]
            if self.tolerate:
                tf = base + ".tolerate"
                open(tf, "w").write("\n".join(self.tolerate) + "\n")
                cmd += ["--tolerate", tf]
            futs.append((e, out, pool.submit(run, cmd, e.wall + 120)))
        vfs = []
        if self.validate:
            exe = var.build_native()
            vfs = [pool.submit(self.validate_entry, exe, work, ll, opq, seed, e) for e in self.entries if e.name in present]
        rep.stubs.extend(self.stubs)
        rep.stubs.extend("opaque(havoc): functions matching " + o for o in self.opaque)
        rep.assumptions.extend(self.assumptions)
        uinfo = {"unit": self.name, "src": self.src, "defines": self.defines, "engine": "llpath", "entries": []}
        kfs = [k for k in known if k.get("status") == "open" and k.get("unit") in (self.name, None)]
        for e, out, fu in futs:
            rc, so, se, dt = fu.result()
            try:
                r = json.load(open(out))
            except Exception:
                rep.obligations += 1
                rep.inconclusive.append("%s/%s: %s" % (self.name, e.name, "wall timeout" if rc == -9 else "engine error: " + se[-400:]))
                print("INCONCLUSIVE %s/%s (%s)" % (self.name, e.name, "timeout" if rc == -9 else "engine error"))
                if rc != -9:
                    rep.errors.append("%s/%s llpath crashed: %s" % (self.name, e.name, se[-600:]))
                continue
            rep.queries += r["queries"]
            rep.solver_s += r["solver_time"]
            for fn, h in fn_hashes(mod, r["functions"]).items():
                rep.encoded[fn] = h
            for a in r["assumptions"]:
                if a not in rep.assumptions:
                    rep.assumptions.append(a)
            nob = r["obligations"] + r["queries"]
            nviol = len(r["violations"])
            rep.obligations += r["obligations"]
            rep.discharged += max(r["obligations"] - nviol, 0)
            rep.vccs += nob
            rep.vccs_nontrivial += r["queries"]
            rep.bounds.append("%s/%s: %s; every feasible path executed to its end (%d paths, %d instructions; limits: %d s, %d steps, %d paths - exceeding one is reported as inconclusive, never as success)"
                              % (self.name, e.name, e.bounds or "input sizes fixed by the harness", r["paths"], r["steps"], e.wall, e.max_steps, e.max_paths))
            einfo = {"entry": e.name, "desc": e.desc, "paths": r["paths"], "path_ends": r["path_ends"], "instructions": r["steps"], "queries": r["queries"],
                     "obligations": r["obligations"], "wall_s": r["wall"], "solver_s": r["solver_time"]}
            if r["status"] == "inconclusive" or (r["status"] == "violated" and r["note"]):
                rep.obligations += 1
                rep.inconclusive.append("%s/%s: %s" % (self.name, e.name, r["note"]))
                print("INCONCLUSIVE %s/%s (%s)" % (self.name, e.name, r["note"][:200]))
            if e.witness and r["status"] == "held" and not any(l == "end" or l.endswith("-end") for l in r["reach"]):
                rep.errors.append("%s/%s VACUOUS: no path reaches the end of the harness (reach=%s, ends=%s)" % (self.name, e.name, r["reach"], r["path_ends"]))
            viol = r["violations"]
            einfo["status"] = "fails" if viol else ("holds" if r["status"] == "held" else "inconclusive")
            uinfo["entries"].append(einfo)
            rep.samples.append({"unit": self.name, "entry": e.name, "what": e.desc, "paths": r["paths"], "obligations": r["obligations"], "solver_queries": r["queries"], "status": einfo["status"]})
            if not viol:
                continue
            groups = {}
            for o in viol:
                hit = None
                for k in kfs:
                    if k.get("entry") in (e.name, None, "*") and kf_match(k, o["label"], o["label"].split(":", 1)[-1]):
                        hit = k
                        break
                groups.setdefault(hit["id"] if hit else None, (hit, []))[1].append(o)
            for kid, (k, items) in groups.items():
                rep_ok = None
                last = None
                for o in items[:4]:
                    for attempt in range(self.replay_repeat):
                        verdict, what, rf = replay_native(var, e, o.get("inputs", []), work, "%d" % (hash(o["label"]) & 0xffffff))
                        rep.replayed += 1
                        # a harness assertion must fail natively as that assertion (a sanitizer report of something else is not a confirmation)
                        if verdict == "reproduced" and o["label"].startswith("VP:") and not o["label"].startswith(("VP:unexpected", "VP:uncaught")) \
                                and o["label"][3:60] not in what:
                            verdict, what = "not_reproduced", "native run failed differently: " + what[:120]
                        last = (verdict, what)
                        if verdict == "reproduced":
                            break
                    if verdict == "reproduced":
                        rep_ok = (o, what, rf)
                        break
                labels = sorted(set(o["label"] for o in items))
                if rep_ok is None:
                    rep.errors.append("%s/%s: counterexample for %s did not reproduce natively (%s) - engine, model or harness is wrong (inputs %s)"
                                      % (self.name, e.name, labels[:4], last, items[0].get("inputs")))
                    continue
                o, what, rf = rep_ok
                if k is not None:
                    print("KNOWN-FINDING: property=%s %s [%s/%s: %s]" % (rep.pid, k.get("what", kid), self.name, e.name, o["label"]))
                    rep.known_hit.append(kid)
                else:
                    dst = keep_replay(rep.pid, rf, o["label"])
                    open(dst, "a").write("# unit=%s entry=%s failing=%s native=%s\n" % (self.name, e.name, o["label"], what))
                    print("VIOLATION property=%s replay=%s" % (rep.pid, dst))
                    print("  obligation: %s/%s [%s] (+%d related) -> %s ; inputs %s ; in %s" % (self.name, e.name, o["label"], len(labels) - 1, what, o.get("inputs"), o.get("where")))
                    rep.violations.append((o["label"], dst))
        for vf in vfs:
            checked, dis = vf.result()
            rep.tv_checked += checked
            rep.tv_disagree += len(dis)
            if dis:
                rep.errors.append("engine validation disagreement in %s: %s" % (self.name, dis[:2]))
        rep.units.append(uinfo)
