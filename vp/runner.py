"""Check runner: builds harness TUs from /repo's working tree, translates, runs the
solvers, replays counterexamples, applies known findings, writes evidence."""
import os, sys, json, re, time, shutil, subprocess, tempfile, hashlib, atexit, random
from concurrent.futures import ThreadPoolExecutor

HERE = os.path.dirname(os.path.abspath(__file__))
ROOT = os.path.dirname(HERE)
REPO = os.environ.get("VP_REPO", "/repo")
sys.path.insert(0, HERE)
import llir, ll2c  # noqa

CLANG = "clang++-14"
CLANG_FLAGS = ["-std=c++17", "-O1", "-fno-vectorize", "-fno-slp-vectorize", "-fno-unroll-loops",
               "-ffp-contract=off", "-fno-access-control", "-DRKCOMMON_VERIF", "-Wno-everything"]
CBMC_FLAGS = ["--unwinding-assertions", "--signed-overflow-check", "--undefined-shift-check",
              "--drop-unused-functions", "--no-malloc-may-fail", "--object-bits", "10", "--json-ui", "--trace", "--verbosity", "8"]
NCPU = int(os.environ.get("VP_JOBS", "16"))


class Entry:
    def __init__(self, name, unwind=4, unwindset=None, timeout=600, flags=(), witness=True, desc="", bounds="", paths=False):
        self.paths = paths
        self.name = name
        self.unwind = unwind
        self.unwindset = unwindset or {}
        self.timeout = timeout
        self.flags = list(flags)
        self.witness = witness
        self.desc = desc
        self.bounds = bounds


class CbmcUnit:
    kind = "cbmc"

    def __init__(self, name, src, entries, defines=(), heap_max=64, opaque=(), race=False, threads=False,
                 validate=True, extra_src=(), assumptions=(), stubs=(), native_defines=(), cbmc_flags=()):
        self.name = name
        self.src = src
        self.entries = entries
        self.defines = list(defines)
        self.heap_max = heap_max
        self.opaque = list(opaque)
        self.race = race
        self.threads = threads
        self.validate = validate
        self.assumptions = list(assumptions)
        self.stubs = list(stubs)
        self.native_defines = list(native_defines)
        self.cbmc_flags = list(cbmc_flags)


class Work:
    """scratch directory outside /repo and /verif, removed on exit"""

    def __init__(self):
        self.dir = tempfile.mkdtemp(prefix="vp_", dir=os.environ.get("VP_TMP", "/tmp"))
        atexit.register(lambda: shutil.rmtree(self.dir, ignore_errors=True))
        inc = os.path.join(self.dir, "inc", "rkcommon")
        os.makedirs(inc)
        ver = open(os.path.join(REPO, "rkcommon", "version.h.in")).read()
        mj, mn, pt = "1", "14", "1"
        mo = re.search(r"project\(rkcommon VERSION (\d+)\.(\d+)\.(\d+)", open(os.path.join(REPO, "CMakeLists.txt")).read())
        if mo:
            mj, mn, pt = mo.groups()
        ver = ver.replace("@PROJECT_VERSION_MAJOR@", mj).replace("@PROJECT_VERSION_MINOR@", mn) \
            .replace("@PROJECT_VERSION_PATCH@", pt).replace("@PROJECT_VERSION@", "%s.%s.%s" % (mj, mn, pt))
        open(os.path.join(inc, "version.h"), "w").write(ver)
        self.inc = os.path.join(self.dir, "inc")

    def path(self, *a):
        return os.path.join(self.dir, *a)


def run(cmd, timeout=None, env=None, cwd=None, mem_gb=None):
    t0 = time.time()
    pre = None
    if mem_gb:
        import resource

        def pre():
            resource.setrlimit(resource.RLIMIT_AS, (int(mem_gb * 2 ** 30), int(mem_gb * 2 ** 30)))
    try:
        p = subprocess.run(cmd, stdout=subprocess.PIPE, stderr=subprocess.PIPE, timeout=timeout, env=env, cwd=cwd,
                           preexec_fn=pre)
        return p.returncode, p.stdout.decode("utf8", "replace"), p.stderr.decode("utf8", "replace"), time.time() - t0
    except subprocess.TimeoutExpired as e:
        return -9, (e.stdout or b"").decode("utf8", "replace"), "TIMEOUT", time.time() - t0


def clang_ir(work, src, defines, out):
    cmd = [CLANG] + CLANG_FLAGS + ["-I" + REPO, "-I" + work.inc, "-I" + os.path.join(ROOT, "harness")] + \
          ["-D" + d for d in defines] + ["-S", "-emit-llvm", src, "-o", out]
    rc, so, se, dt = run(cmd, timeout=300)
    if rc != 0:
        raise RuntimeError("clang failed for %s:\n%s" % (src, se[-3000:]))
    return dt


def fn_hashes(mod, names):
    """hash of the IR body of the named functions (evidence: functions encoded)"""
    out = {}
    for n in names:
        f = mod.funcs.get(n)
        if f is None or f.is_decl:
            continue
        h = hashlib.sha1()
        for ins in f.instrs():
            h.update(repr(ins).encode())
        out[n] = h.hexdigest()[:12]
    return out


class CbmcVariant:
    """one compiled variant (set of defines) of a unit"""

    def __init__(self, work, unit, extra_defines=()):
        self.work = work
        self.unit = unit
        self.defs = list(unit.defines) + list(extra_defines)
        tag = hashlib.sha1((" ".join(self.defs) + unit.name).encode()).hexdigest()[:8]
        self.base = work.path("%s_%s" % (unit.name, tag))
        self.built = False
        self.encoded = {}

    def build(self):
        if self.built:
            return
        u = self.unit
        src = os.path.join(ROOT, u.src)
        ll = self.base + ".ll"
        clang_ir(self.work, src, self.defs, ll)
        mn = ll2c.model_names_from(os.path.join(HERE, "models", "models.c"))
        mod = llir.parse_file(ll)
        g = ll2c.CGen(mod, opaque=u.opaque, shared_race=u.race)
        entries = [n for n, f in mod.funcs.items() if n.startswith("vp_main") and not f.is_decl]
        txt = g.generate(entries, mn)
        self.missing = [m for m in g.missing if not g.is_opaque_fn(m)]
        self.opaque_used = [m for m in g.missing if g.is_opaque_fn(m)] + \
                           [n for n in mod.funcs if g.is_opaque_fn(n) and not mod.funcs[n].is_decl]
        self.c = self.base + ".c"
        open(self.c, "w").write(txt)
        funcs, _ = g.reachable(entries)
        self.encoded = fn_hashes(mod, funcs)
        self.entries_present = set(entries)
        self.mod = mod
        cdefs = ["-DVP_HEAP_MAX=%d" % u.heap_max]
        if u.threads:
            cdefs.append("-DVP_THREADS")
        if u.race:
            cdefs.append("-DVP_RACE")
        self.gb = self.base + ".gb"
        self.gbw = self.base + "_w.gb"
        inc = ["-I", os.path.join(HERE, "models")]
        rc, so, se, dt = run(["goto-cc", self.c, "-o", self.gb] + inc + cdefs, timeout=600)
        if rc != 0:
            raise RuntimeError("goto-cc failed for %s:\n%s" % (self.c, (so + se)[-3000:]))
        rc, so, se, dt = run(["goto-cc", self.c, "-o", self.gbw, "-DVP_WITNESS"] + inc + cdefs, timeout=600)
        if rc != 0:
            raise RuntimeError("goto-cc (witness) failed:\n%s" % (so + se)[-3000:])
        self.built = True

    # ---- native builds (replay + translation validation)
    def build_native(self):
        if getattr(self, "native", None):
            return self.native
        u = self.unit
        src = os.path.join(ROOT, u.src)
        exe = self.base + "_native"
        cmd = ["g++", "-std=c++17", "-O1", "-g", "-fsanitize=address,undefined", "-fno-sanitize-recover=undefined",
               "-fno-access-control", "-DRKCOMMON_VERIF", "-w", "-rdynamic",
               "-I" + REPO, "-I" + self.work.inc, "-I" + os.path.join(ROOT, "harness")] + \
              ["-D" + d for d in self.defs + u.native_defines] + \
              [src, os.path.join(HERE, "rt", "native_rt.cpp"), "-o", exe, "-ldl", "-lpthread"]
        rc, so, se, dt = run(cmd, timeout=600)
        if rc != 0:
            raise RuntimeError("native build failed:\n%s" % se[-3000:])
        self.native = exe
        return exe

    def build_cnative(self):
        if getattr(self, "cnative", None):
            return self.cnative
        exe = self.base + "_cnative"
        cmd = ["gcc", "-O0", "-w", "-rdynamic", "-DVP_NATIVE", "-DVP_HEAP_MAX=%d" % self.unit.heap_max,
               "-I" + os.path.join(HERE, "models"), self.c, os.path.join(HERE, "rt", "native_rt.c"), "-o", exe, "-ldl", "-lm"]
        rc, so, se, dt = run(cmd, timeout=600)
        if rc != 0:
            raise RuntimeError("gcc build of ll2c output failed:\n%s" % se[-3000:])
        self.cnative = exe
        return exe


def classify(desc):
    for p in ("VP:", "UB:", "MEM:", "TRAP:", "BOUND:", "HARNESS:", "REACH:", "RACE:"):
        if desc.startswith(p):
            return p[:-1], desc[len(p):]
    if "unwinding assertion" in desc or "recursion unwinding" in desc:
        return "BOUND", desc
    return "CBMC", desc


def parse_cbmc_json(txt):
    try:
        data = json.loads(txt)
    except Exception:
        # truncated output (timeout): try to salvage nothing
        return None, None, {}
    results = None
    stats = {}
    for item in data:
        if isinstance(item, dict):
            if "result" in item:
                results = item["result"]
            if "messageText" in item:
                mt = item["messageText"]
                mo = re.search(r"Generated (\d+) VCC\(s\), (\d+) remaining", mt)
                if mo:
                    stats["vccs"] = int(mo.group(1))
                    stats["vccs_nontrivial"] = int(mo.group(2))
                mo = re.search(r"size of program expression: (\d+) steps", mt)
                if mo:
                    stats["steps"] = int(mo.group(1))
                mo = re.search(r"(\d+) variables, (\d+) clauses", mt)
                if mo:
                    stats["sat_vars"] = stats.get("sat_vars", 0) + int(mo.group(1))
                    stats["sat_clauses"] = stats.get("sat_clauses", 0) + int(mo.group(2))
                mo = re.search(r"Runtime decision procedure: ([0-9.]+)s", mt)
                if mo:
                    stats["solver_s"] = stats.get("solver_s", 0.0) + float(mo.group(1))
                mo = re.search(r"Runtime Solver: ([0-9.]+)s", mt)
                if mo:
                    stats["sat_s"] = stats.get("sat_s", 0.0) + float(mo.group(1))
            if item.get("messageType") == "ERROR":
                stats.setdefault("errors", []).append(item.get("messageText", ""))
    return results, data, stats


def trace_inputs(trace):
    """inputs recorded in vp_log by the model of vp_nondet_*"""
    vals = {}
    n = 0
    for st in trace or []:
        if st.get("stepType") != "assignment":
            continue
        lhs = st.get("lhs", "")
        mo = re.match(r"vp_log\[(\d+)[a-z]*\]$", lhs)
        v = st.get("value", {})
        if mo:
            b = v.get("binary")
            if b is not None:
                vals[int(mo.group(1))] = int(b, 2)
        elif lhs == "vp_nlog":
            b = v.get("binary")
            if b is not None:
                n = max(n, int(b, 2))
    return [vals.get(i, 0) for i in range(n)]


def run_cbmc_entry(var, entry, witness=False):
    u = var.unit
    gb = var.gbw if witness else var.gb
    cmd = ["cbmc", gb, "--function", "ir_" + entry.name, "--unwind", str(entry.unwind)]
    if entry.unwindset:
        cmd += ["--unwindset", ",".join("%s:%d" % kv for kv in entry.unwindset.items())]
    flags = [f for f in CBMC_FLAGS]
    if witness:
        flags = [f for f in flags if f not in ("--unwinding-assertions", "--signed-overflow-check",
                                               "--undefined-shift-check", "--trace")]
        flags += ["--no-standard-checks", "--no-unwinding-assertions"]
    if entry.paths:
        flags += ["--paths", "lifo"]
    cmd += flags + entry.flags + u.cbmc_flags
    rc, so, se, dt = run(cmd, timeout=entry.timeout, mem_gb=float(os.environ.get("VP_MEM_GB", "24")))
    results, data, stats = parse_cbmc_json(so)
    return dict(entry=entry, witness=witness, rc=rc, results=results, stats=stats, wall=dt,
                timeout=(rc == -9), raw_tail=(so[-2000:] + se[-2000:]) if results is None else "")


def replay_native(var, entry, inputs, work, tag):
    exe = var.build_native()
    rf = work.path("replay_%s_%s.txt" % (entry.name, tag))
    open(rf, "w").write(" ".join(str(x) for x in inputs) + "\n")
    env = dict(os.environ, VP_REPLAY=rf, ASAN_OPTIONS="detect_leaks=0:abort_on_error=0:detect_stack_use_after_return=1",
               UBSAN_OPTIONS="print_stacktrace=0:halt_on_error=1")
    rc, so, se, dt = run([exe, entry.name], timeout=120, env=env)
    verdict = "not_reproduced"
    what = ""
    if "VP_ASSUME_FAIL" in so and rc == 0:
        verdict = "assume_failed"
    elif "VP_ASSERT_FAIL" in so:
        verdict = "reproduced"
        what = re.search(r"VP_ASSERT_FAIL (.*)", so).group(1)
    elif "ERROR: AddressSanitizer" in se or "runtime error:" in se or "ERROR: LeakSanitizer" in se:
        verdict = "reproduced"
        mo = re.search(r"(ERROR: AddressSanitizer: [^\n]*|[^\n]*runtime error:[^\n]*)", se)
        what = mo.group(1)[:300] if mo else "sanitizer"
    elif rc not in (0,):
        verdict = "reproduced"
        what = "native exit status %d %s" % (rc, se[-200:])
    return verdict, what, rf


def validate_translation(var, work, seed, nruns=24):
    """DESIGN 2.5: ll2c output (gcc) vs the native C++ harness on seeded random inputs; traces must agree"""
    exe_cpp = var.build_native()
    exe_c = var.build_cnative()
    rnd = random.Random(seed)
    checked = 0
    disagreements = []
    for e in var.unit.entries:
        if e.name not in var.entries_present:
            continue
        for k in range(nruns):
            style = k % 3
            vals = []
            for i in range(64):
                if style == 0:
                    vals.append(rnd.choice([0, 1, 2, 3, 4, 5, 7, 8, 255, 2 ** 31 - 1, 2 ** 32 - 1, 2 ** 63, 2 ** 64 - 1]))
                elif style == 1:
                    vals.append(rnd.randrange(0, 6))
                else:
                    vals.append(rnd.getrandbits(rnd.choice([3, 8, 32, 64])))
            rf = work.path("tv_%s_%d.txt" % (e.name, k))
            open(rf, "w").write(" ".join(map(str, vals)))
            env = dict(os.environ, VP_REPLAY=rf, VP_TRACE="1", ASAN_OPTIONS="detect_leaks=0", UBSAN_OPTIONS="halt_on_error=0")
            r1 = run([exe_cpp, e.name], timeout=60, env=env)
            r2 = run([exe_c, e.name], timeout=60, env=env)

            def norm(s):
                out = []
                for line in s.splitlines():
                    if line.startswith(("A ", "R ", "VP_ASSERT_FAIL", "VP_ASSUME_FAIL", "VP_DONE")):
                        out.append(re.sub(r"[^A-Za-z0-9 _.,:;<>=+*/()\[\]!?&|#@%-]", "_", line))
                return out
            t1, t2 = norm(r1[1]), norm(r2[1])
            # sanitizer-detected UB on the C++ side makes the run incomparable
            if "runtime error" in r1[2] or "AddressSanitizer" in r1[2]:
                continue
            if r1[0] == -9 or r2[0] == -9:
                continue
            checked += 1
            if t1 != t2:
                disagreements.append(dict(entry=e.name, inputs=vals[:16], cpp=t1[-4:], c=t2[-4:], c_err=r2[2][-300:]))
    return checked, disagreements
