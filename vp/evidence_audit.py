#!/usr/bin/env python3
"""Audit /verif/evidence before committing it: every file must describe a run on the tree as it stands.

A file fails the audit when it was written by a run that saw a modified /repo (tree_checked.modified_files), a different
HEAD than /repo has now, a violation, an inconclusive obligation, or when it does not validate against the evidence schema.
(Runs on deliberately broken trees - vp/seed_eval.py, vp/try_mutant.sh - write to VP_EVIDENCE_DIR, not here; this audit is
the second line of defence.)  Usage: python3-vt vp/evidence_audit.py ; exit 0 = all files are clean-tree evidence."""
import os, sys, json, subprocess
ROOT = os.path.dirname(os.path.dirname(os.path.abspath(__file__)))
REPO = os.environ.get("VP_REPO", "/repo")
SCHEMA = "/root/.vp/EVIDENCE.schema.json"


def main():
    head = subprocess.run(["git", "-C", REPO, "rev-parse", "HEAD"], capture_output=True, text=True).stdout.strip()
    man = json.load(open(os.path.join(ROOT, "MANIFEST.json")))
    validator = None
    try:
        import jsonschema
        if os.path.exists(SCHEMA):
            validator = jsonschema.Draft202012Validator(json.load(open(SCHEMA)))
    except Exception:
        pass
    bad = 0
    for c in man["checks"]:
        pid = c["property_id"]
        p = os.path.join(ROOT, c["evidence_file"])
        probs = []
        if not os.path.exists(p):
            probs.append("missing")
        else:
            ev = json.load(open(p))
            cov = ev.get("coverage", {})
            tc = cov.get("tree_checked") or {}
            if tc.get("head") != head:
                probs.append("written for HEAD %s, /repo is at %s" % (str(tc.get("head"))[:10], head[:10]))
            if tc.get("modified_files"):
                probs.append("written on a modified tree: %s" % tc["modified_files"][:3])
            if ev.get("violations"):
                probs.append("%d violation(s)" % ev["violations"])
            if cov.get("inconclusive"):
                probs.append("%d inconclusive" % len(cov["inconclusive"]))
            if cov.get("translation_disagreements"):
                probs.append("translation disagreements")
            if validator is not None:
                errs = list(validator.iter_errors(ev))
                if errs:
                    probs.append("schema: " + errs[0].message[:120])
        print("%s %s" % (pid, "ok" if not probs else "STALE/BAD: " + "; ".join(probs)))
        bad += bool(probs)
    return 1 if bad else 0


if __name__ == "__main__":
    sys.exit(main())
