"""LLVM-14 textual IR parser (typed pointers) for the subset clang++-14 emits at -O1.

Produces a Module with named types, globals, function declarations/definitions.
Only what ll2smt / ll2c need: types, constants, instructions, CFG, attributes
(nounwind / noreturn), x86-64 data layout computations.
"""
import re
import struct as _struct


class IRError(Exception):
    pass


# ----------------------------------------------------------------------------
# Types
# ----------------------------------------------------------------------------
class Type:
    __slots__ = ("kind", "bits", "elem", "n", "fields", "packed", "name", "ret", "params", "vararg", "_key")

    def __init__(self, kind, **kw):
        self.kind = kind
        self.bits = kw.get("bits")
        self.elem = kw.get("elem")
        self.n = kw.get("n")
        self.fields = kw.get("fields")
        self.packed = kw.get("packed", False)
        self.name = kw.get("name")
        self.ret = kw.get("ret")
        self.params = kw.get("params")
        self.vararg = kw.get("vararg", False)
        self._key = None

    def key(self):
        if self._key is None:
            k = self.kind
            if k == "int":
                s = "i%d" % self.bits
            elif k in ("void", "float", "double", "label", "metadata", "token", "x86_fp80", "half"):
                s = k
            elif k == "ptr":
                s = self.elem.key() + "*"
            elif k == "array":
                s = "[%d x %s]" % (self.n, self.elem.key())
            elif k == "vector":
                s = "<%d x %s>" % (self.n, self.elem.key())
            elif k == "struct":
                s = ("<{%s}>" if self.packed else "{%s}") % ", ".join(f.key() for f in self.fields)
            elif k == "named":
                s = "%" + self.name
            elif k == "func":
                s = "%s (%s%s)" % (self.ret.key(), ", ".join(p.key() for p in self.params), ", ..." if self.vararg else "")
            else:
                s = k
            self._key = s
        return self._key

    def __repr__(self):
        return self.key()

    def __eq__(self, o):
        return isinstance(o, Type) and self.key() == o.key()

    def __hash__(self):
        return hash(self.key())

    @property
    def is_int(self):
        return self.kind == "int"

    @property
    def is_fp(self):
        return self.kind in ("float", "double", "x86_fp80", "half")

    @property
    def is_ptr(self):
        return self.kind == "ptr"


VOID = Type("void")
FLOAT = Type("float")
DOUBLE = Type("double")
LABEL = Type("label")
METADATA = Type("metadata")
TOKEN = Type("token")
FP80 = Type("x86_fp80")
HALF = Type("half")
_int_cache = {}


def IntT(b):
    t = _int_cache.get(b)
    if t is None:
        t = _int_cache[b] = Type("int", bits=b)
    return t


I1, I8, I16, I32, I64 = IntT(1), IntT(8), IntT(16), IntT(32), IntT(64)


def PtrT(e):
    return Type("ptr", elem=e)


# ----------------------------------------------------------------------------
# Values
# ----------------------------------------------------------------------------
class Val:
    """kind: local, global, int, fp, null, undef, zero, struct, array, vector, cstr, cexpr, meta, blockaddr"""
    __slots__ = ("kind", "ty", "v", "ops", "extra")

    def __init__(self, kind, ty, v=None, ops=None, extra=None):
        self.kind = kind
        self.ty = ty
        self.v = v
        self.ops = ops
        self.extra = extra

    def __repr__(self):
        if self.kind in ("local",):
            return "%" + str(self.v)
        if self.kind == "global":
            return "@" + str(self.v)
        if self.kind == "cexpr":
            return "cexpr(%s %s)" % (self.v, self.ops)
        return "%s:%s" % (self.kind, self.v if self.v is not None else self.ops)


class Instr:
    __slots__ = ("op", "res", "ty", "ops", "attrs", "block")

    def __init__(self, op, res, ty, ops, **attrs):
        self.op = op
        self.res = res
        self.ty = ty
        self.ops = ops
        self.attrs = attrs
        self.block = None

    def __repr__(self):
        return "%s%s %s %s" % (("%%%s = " % self.res) if self.res is not None else "", self.op, self.ops, self.attrs or "")


class Block:
    def __init__(self, name):
        self.name = name
        self.instrs = []
        self.preds = []
        self.succs = []

    @property
    def term(self):
        return self.instrs[-1]


class Function:
    def __init__(self, name, ret, params, vararg, attrs, linkage):
        self.name = name
        self.ret = ret
        self.params = params  # list of (Type, name, [param attr strings])
        self.vararg = vararg
        self.attrs = attrs  # set of strings
        self.linkage = linkage
        self.blocks = []  # empty => declaration
        self.bmap = {}
        self.personality = None

    @property
    def is_decl(self):
        return not self.blocks

    @property
    def ftype(self):
        return Type("func", ret=self.ret, params=[p[0] for p in self.params], vararg=self.vararg)

    def instrs(self):
        for b in self.blocks:
            for i in b.instrs:
                yield i


class Global:
    def __init__(self, name, ty, init, const, linkage, align, tls=False):
        self.name = name
        self.ty = ty  # value type (global itself is ty*)
        self.init = init  # Val or None (external)
        self.const = const
        self.linkage = linkage
        self.align = align
        self.tls = tls


class Module:
    def __init__(self):
        self.types = {}  # name -> Type(struct) or None (opaque)
        self.globals = {}
        self.funcs = {}
        self.aliases = {}
        self.attrgroups = {}
        self.datalayout = ""
        self.triple = ""

    # ---- layout (x86-64 SysV as in the datalayout clang prints) ----
    def resolve(self, t):
        while t.kind == "named":
            r = self.types.get(t.name)
            if r is None:
                raise IRError("opaque type %s has no layout" % t.name)
            t = r
        return t

    def is_opaque(self, t):
        return t.kind == "named" and self.types.get(t.name) is None

    def sizeof(self, t):
        c = self.__dict__.setdefault("_szc", {})
        key = t.key()
        r = c.get(key)
        if r is None:
            r = c[key] = self._sizeof(t)
        return r

    def alignof(self, t):
        c = self.__dict__.setdefault("_alc", {})
        key = t.key()
        r = c.get(key)
        if r is None:
            r = c[key] = self._alignof(t)
        return r

    def field_offset(self, t, idx):
        c = self.__dict__.setdefault("_foc", {})
        key = (t.key(), idx)
        r = c.get(key)
        if r is None:
            r = c[key] = self._field_offset(t, idx)
        return r

    def _sizeof(self, t):
        t = self.resolve(t)
        k = t.kind
        if k == "int":
            b = t.bits
            if b <= 8:
                return 1
            if b <= 16:
                return 2
            if b <= 32:
                return 4
            if b <= 64:
                return 8
            return ((b + 127) // 128) * 16 if b > 64 else 8
        if k == "float":
            return 4
        if k == "double":
            return 8
        if k == "half":
            return 2
        if k == "x86_fp80":
            return 16
        if k == "ptr":
            return 8
        if k == "array":
            return t.n * self.sizeof(t.elem)
        if k == "vector":
            sz = t.n * self.sizeof(t.elem)
            a = self.alignof(t)
            return (sz + a - 1) // a * a
        if k == "struct":
            off = 0
            for f in t.fields:
                if not t.packed:
                    a = self.alignof(f)
                    off = (off + a - 1) // a * a
                off += self.sizeof(f)
            if not t.packed:
                a = self.alignof(t)
                off = (off + a - 1) // a * a
            return off
        raise IRError("sizeof %s" % t)

    def _alignof(self, t):
        t = self.resolve(t)
        k = t.kind
        if k == "int":
            b = t.bits
            return 1 if b <= 8 else 2 if b <= 16 else 4 if b <= 32 else 8 if b <= 64 else 16
        if k == "float":
            return 4
        if k == "double":
            return 8
        if k == "half":
            return 2
        if k == "x86_fp80":
            return 16
        if k == "ptr":
            return 8
        if k == "array":
            return self.alignof(t.elem)
        if k == "vector":
            sz = t.n * self.sizeof(t.elem)
            a = 1
            while a < sz:
                a *= 2
            return min(a, 64) if a else 1
        if k == "struct":
            if t.packed:
                return 1
            return max([self.alignof(f) for f in t.fields] or [1])
        raise IRError("alignof %s" % t)

    def _field_offset(self, t, idx):
        t = self.resolve(t)
        off = 0
        for i, f in enumerate(t.fields):
            if not t.packed:
                a = self.alignof(f)
                off = (off + a - 1) // a * a
            if i == idx:
                return off
            off += self.sizeof(f)
        raise IRError("field index")


# ----------------------------------------------------------------------------
# Tokenizer
# ----------------------------------------------------------------------------
_tok_re = re.compile(r"""
    (?P<ws>[ \t\r\n]+)
  | (?P<comment>;[^\n]*)
  | (?P<cstr>c"(?:[^"\\]|\\[0-9a-fA-F]{2}|\\\\)*")
  | (?P<str>"(?:[^"\\]|\\[0-9a-fA-F]{2}|\\\\)*")
  | (?P<lvar>%(?:"(?:[^"\\]|\\[0-9a-fA-F]{2})*"|[-a-zA-Z$._0-9]+))
  | (?P<gvar>@(?:"(?:[^"\\]|\\[0-9a-fA-F]{2})*"|[-a-zA-Z$._0-9]+))
  | (?P<meta>!(?:"(?:[^"\\]|\\[0-9a-fA-F]{2})*"|[-a-zA-Z$._0-9]*))
  | (?P<attr>\#[0-9]+)
  | (?P<comdat>\$(?:"[^"]*"|[-a-zA-Z$._0-9]+))
  | (?P<label>(?:[-a-zA-Z$._0-9]+|"[^"]*"):)
  | (?P<hex>0x[KMLHR]?[0-9a-fA-F]+)
  | (?P<num>-?[0-9]+(?:\.[0-9]*(?:[eE][-+]?[0-9]+)?)?)
  | (?P<word>[a-zA-Z_][-a-zA-Z$._0-9]*)
  | (?P<dots>\.\.\.)
  | (?P<p>[=,(){}\[\]<>*|])
""", re.X)


def _unq(s):
    if s.startswith('"'):
        s = s[1:-1]
        return re.sub(r"\\([0-9a-fA-F]{2})", lambda m: chr(int(m.group(1), 16)), s)
    return s


def tokenize(text):
    toks = []
    pos = 0
    n = len(text)
    m = _tok_re.match
    while pos < n:
        mo = m(text, pos)
        if not mo:
            raise IRError("lex error at %r" % text[pos:pos + 40])
        k = mo.lastgroup
        pos = mo.end()
        if k in ("ws", "comment"):
            continue
        toks.append((k, mo.group(k)))
    toks.append(("eof", ""))
    return toks


def _cstr_bytes(s):
    s = s[2:-1]
    out = bytearray()
    i = 0
    while i < len(s):
        if s[i] == "\\":
            if s[i + 1] == "\\":
                out.append(92)
                i += 2
            else:
                out.append(int(s[i + 1:i + 3], 16))
                i += 3
        else:
            out.append(ord(s[i]))
            i += 1
    return bytes(out)


_LINKAGE = {"private", "internal", "available_externally", "linkonce", "weak", "common", "appending", "extern_weak",
            "linkonce_odr", "weak_odr", "external", "dso_local", "dso_preemptable", "default", "hidden", "protected",
            "dllimport", "dllexport", "unnamed_addr", "local_unnamed_addr", "thread_local", "externally_initialized"}
_PATTRS = {"zeroext", "signext", "inreg", "noalias", "nocapture", "nofree", "nest", "returned", "nonnull", "noundef",
           "readonly", "readnone", "writeonly", "immarg", "swiftself", "swifterror", "nounwind"}
_PATTRS_ARG = {"byval", "sret", "align", "dereferenceable", "dereferenceable_or_null", "inalloca", "preallocated",
               "byref", "elementtype"}
_FMF = {"fast", "nnan", "ninf", "nsz", "arcp", "contract", "afn", "reassoc"}
_CCONV = {"ccc", "fastcc", "coldcc", "x86_stdcallcc", "x86_fastcallcc", "x86_thiscallcc"}
_BINOPS = {"add", "sub", "mul", "udiv", "sdiv", "urem", "srem", "shl", "lshr", "ashr", "and", "or", "xor",
           "fadd", "fsub", "fmul", "fdiv", "frem"}
_CASTS = {"trunc", "zext", "sext", "fptrunc", "fpext", "fptoui", "fptosi", "uitofp", "sitofp", "ptrtoint",
          "inttoptr", "bitcast", "addrspacecast"}


class Parser:
    def __init__(self, text):
        self.toks = tokenize(text)
        self.i = 0
        self.mod = Module()

    # -- token helpers
    def peek(self, o=0):
        return self.toks[self.i + o]

    def next(self):
        t = self.toks[self.i]
        self.i += 1
        return t

    def accept(self, val):
        if self.toks[self.i][1] == val and self.toks[self.i][0] not in ("str", "cstr"):
            self.i += 1
            return True
        return False

    def expect(self, val):
        t = self.next()
        if t[1] != val:
            raise IRError("expected %r got %r near %s" % (val, t, self.toks[max(0, self.i - 12):self.i + 4]))
        return t

    def at_word(self, *ws):
        t = self.toks[self.i]
        return t[0] == "word" and t[1] in ws

    # -- module
    def parse(self):
        while True:
            k, v = self.peek()
            if k == "eof":
                break
            if k == "word" and v == "source_filename":
                self.next(); self.expect("="); self.next()
            elif k == "word" and v == "target":
                self.next()
                which = self.next()[1]
                self.expect("=")
                s = _unq(self.next()[1])
                if which == "datalayout":
                    self.mod.datalayout = s
                else:
                    self.mod.triple = s
            elif k == "word" and v == "module":
                self.next(); self.expect("asm"); self.next()
            elif k == "lvar":
                self.parse_typedef()
            elif k == "gvar":
                self.parse_global()
            elif k == "word" and v == "declare":
                self.next()
                self.parse_function(False)
            elif k == "word" and v == "define":
                self.next()
                self.parse_function(True)
            elif k == "word" and v == "attributes":
                self.next()
                gid = self.next()[1]
                self.expect("=")
                self.expect("{")
                attrs = set()
                while not self.accept("}"):
                    t = self.next()
                    if t[0] == "str":
                        a = _unq(t[1])
                        if self.accept("="):
                            a += "=" + _unq(self.next()[1])
                        attrs.add(a)
                    else:
                        a = t[1]
                        if self.peek()[1] == "(":
                            d = 0
                            while True:
                                tt = self.next()
                                if tt[1] == "(":
                                    d += 1
                                elif tt[1] == ")":
                                    d -= 1
                                    if d == 0:
                                        break
                        elif self.accept("="):
                            self.next()
                        attrs.add(a)
                self.mod.attrgroups[gid] = attrs
            elif k == "meta":
                # metadata definition: skip to next top-level start
                self.next()
                self.expect("=")
                self.skip_meta_def()
            elif k == "comdat":
                self.next(); self.expect("="); self.expect("comdat"); self.next()
            else:
                raise IRError("unexpected top-level token %r" % (self.peek(),))
        self.finish()
        return self.mod

    def skip_meta_def(self):
        # !N = [distinct] !{...} or !DIxxx(...)
        self.accept("distinct")
        t = self.next()
        if t[0] == "meta":
            if self.peek()[1] in ("{", "("):
                self.skip_balanced()
        else:
            raise IRError("meta def %r" % (t,))

    def skip_balanced(self):
        open_ = self.next()[1]
        close = {"{": "}", "(": ")", "[": "]", "<": ">"}[open_]
        d = 1
        while d:
            t = self.next()
            if t[0] in ("str", "cstr"):
                continue
            if t[1] == open_:
                d += 1
            elif t[1] == close:
                d -= 1

    def parse_typedef(self):
        name = _unq(self.next()[1][1:])
        self.expect("=")
        self.expect("type")
        if self.accept("opaque"):
            self.mod.types[name] = None
        else:
            self.mod.types[name] = self.parse_type()

    # -- types
    def parse_type(self):
        k, v = self.next()
        if k == "word":
            if v == "void":
                t = VOID
            elif v[0] == "i" and v[1:].isdigit():
                t = IntT(int(v[1:]))
            elif v == "float":
                t = FLOAT
            elif v == "double":
                t = DOUBLE
            elif v == "half":
                t = HALF
            elif v == "x86_fp80":
                t = FP80
            elif v == "label":
                t = LABEL
            elif v == "metadata":
                t = METADATA
            elif v == "token":
                t = TOKEN
            elif v == "opaque":
                t = None
            else:
                raise IRError("type word %r" % v)
        elif k == "lvar":
            t = Type("named", name=_unq(v[1:]))
        elif v == "[":
            n = int(self.next()[1])
            self.expect("x")
            e = self.parse_type()
            self.expect("]")
            t = Type("array", n=n, elem=e)
        elif v == "<":
            if self.accept("{"):
                fs = self.parse_type_list("}")
                self.expect(">")
                t = Type("struct", fields=fs, packed=True)
            else:
                n = int(self.next()[1])
                self.expect("x")
                e = self.parse_type()
                self.expect(">")
                t = Type("vector", n=n, elem=e)
        elif v == "{":
            fs = self.parse_type_list("}")
            t = Type("struct", fields=fs, packed=False)
        else:
            raise IRError("type token %r near %s" % ((k, v), self.toks[max(0, self.i - 10):self.i + 3]))
        # suffixes
        while True:
            if self.accept("*"):
                t = PtrT(t)
            elif self.peek()[1] == "(" and self.peek()[0] == "p":
                self.next()
                ps = []
                va = False
                if not self.accept(")"):
                    while True:
                        if self.accept("..."):
                            va = True
                        else:
                            ps.append(self.parse_type())
                        if self.accept(")"):
                            break
                        self.expect(",")
                t = Type("func", ret=t, params=ps, vararg=va)
            elif self.at_word("addrspace"):
                self.next(); self.skip_balanced()
            else:
                break
        return t

    def parse_type_list(self, close):
        fs = []
        if self.accept(close):
            return fs
        while True:
            fs.append(self.parse_type())
            if self.accept(close):
                return fs
            self.expect(",")

    # -- constants / values
    def parse_typed_value(self):
        t = self.parse_type()
        self.skip_param_attrs()
        return self.parse_value(t)

    def skip_param_attrs(self):
        attrs = []
        while True:
            k, v = self.peek()
            if k == "word" and v in _PATTRS:
                attrs.append(v)
                self.next()
            elif k == "word" and v in _PATTRS_ARG:
                self.next()
                if self.peek()[1] == "(":
                    self.next()
                    if v in ("byval", "sret", "byref", "elementtype", "inalloca", "preallocated"):
                        ty = self.parse_type()
                        attrs.append((v, ty))
                    else:
                        attrs.append((v, self.next()[1]))
                    self.expect(")")
                elif v == "align":
                    attrs.append((v, self.next()[1]))
                else:
                    attrs.append(v)
            else:
                break
        return attrs

    def parse_fp(self, ty, tok):
        k, v = tok
        if k == "hex":
            if v[2] in "KMLHR":
                if v[2] == "K":  # x86_fp80: 20 hex digits
                    bits = int(v[3:], 16)
                    sign = (bits >> 79) & 1
                    exp = (bits >> 64) & 0x7fff
                    mant = bits & ((1 << 64) - 1)
                    if exp == 0x7fff:
                        val = float("inf") if mant << 1 & ((1 << 64) - 1) == 0 else float("nan")
                    else:
                        val = mant / float(1 << 63) * (2.0 ** (exp - 16383)) if (exp or mant) else 0.0
                    return Val("fp", ty, -val if sign else val)
                raise IRError("fp const kind %s" % v)
            bits = int(v[2:], 16)
            d = _struct.unpack("<d", _struct.pack("<Q", bits))[0]
            return Val("fp", ty, d, extra=bits)
        return Val("fp", ty, float(v))

    def parse_value(self, t):
        k, v = self.next()
        if k == "lvar":
            return Val("local", t, _unq(v[1:]))
        if k == "gvar":
            return Val("global", t, _unq(v[1:]))
        if k == "num" or k == "hex":
            if t.is_fp:
                return self.parse_fp(t, (k, v))
            if k == "hex":
                raise IRError("hex int")
            return Val("int", t, int(v))
        if k == "word":
            if v == "true":
                return Val("int", t, 1)
            if v == "false":
                return Val("int", t, 0)
            if v == "null":
                return Val("null", t)
            if v in ("undef", "poison"):
                return Val("undef", t)
            if v == "zeroinitializer":
                return Val("zero", t)
            if v == "none":
                return Val("undef", t)
            if v == "asm":
                while self.peek()[0] == "word":
                    self.next()
                a = _unq(self.next()[1])
                self.expect(",")
                c = _unq(self.next()[1])
                return Val("asm", t, (a, c))
            if v == "blockaddress":
                self.skip_balanced()
                return Val("blockaddr", t)
            if v in _BINOPS or v in _CASTS or v in ("getelementptr", "select", "icmp", "fcmp", "extractelement",
                                                     "insertelement", "shufflevector", "extractvalue", "insertvalue", "fneg"):
                return self.parse_cexpr(t, v)
        if k == "cstr":
            return Val("cstr", t, _cstr_bytes(v))
        if k == "meta":
            # metadata operand (for intrinsics); skip
            if self.peek()[1] in ("{", "("):
                self.skip_balanced()
            return Val("meta", t, v)
        if v == "{":
            ops = self.parse_const_list("}")
            return Val("struct", t, ops=ops)
        if v == "[":
            ops = self.parse_const_list("]")
            return Val("array", t, ops=ops)
        if v == "<":
            if self.accept("{"):
                ops = self.parse_const_list("}")
                self.expect(">")
                return Val("struct", t, ops=ops)
            ops = self.parse_const_list(">")
            return Val("vector", t, ops=ops)
        raise IRError("value token %r (type %s) near %s" % ((k, v), t, self.toks[max(0, self.i - 10):self.i + 3]))

    def parse_const_list(self, close):
        ops = []
        if self.accept(close):
            return ops
        while True:
            ops.append(self.parse_typed_value())
            if self.accept(close):
                return ops
            self.expect(",")

    def parse_cexpr(self, t, op):
        flags = []
        while self.peek()[0] == "word" and self.peek()[1] in {"nuw", "nsw", "exact", "inbounds"}:
            flags.append(self.next()[1])
        pred = None
        if op in ("icmp", "fcmp"):
            pred = self.next()[1]
        self.expect("(")
        ops = []
        srcty = None
        if op == "getelementptr":
            srcty = self.parse_type()
            self.expect(",")
        while True:
            self.accept("inrange")
            ops.append(self.parse_typed_value())
            if self.at_word("to"):
                self.next()
                self.parse_type()  # == t
            if self.accept(")"):
                break
            self.expect(",")
        return Val("cexpr", t, op, ops=ops, extra={"flags": flags, "pred": pred, "srcty": srcty})

    # -- globals
    def parse_global(self):
        name = _unq(self.next()[1][1:])
        self.expect("=")
        linkage = []
        tls = False
        while self.peek()[0] == "word" and self.peek()[1] in _LINKAGE:
            w = self.next()[1]
            if w == "thread_local":
                tls = True
                if self.peek()[1] == "(":
                    self.skip_balanced()
            linkage.append(w)
        if self.at_word("alias", "ifunc"):
            self.next()
            ty = self.parse_type()
            self.expect(",")
            target = self.parse_typed_value()
            self.mod.aliases[name] = target
            return
        if self.at_word("addrspace"):
            self.next(); self.skip_balanced()
        kind = self.next()[1]
        if kind not in ("global", "constant"):
            raise IRError("global kind %r for %s" % (kind, name))
        ty = self.parse_type()
        init = None
        k, v = self.peek()
        if not (v == "," or k in ("gvar", "lvar", "eof", "attr", "meta") and self.peek(1)[1] == "=" or
                (k == "word" and v in ("declare", "define", "attributes", "target", "source_filename")) or k == "eof" or k == "comdat"):
            # has initializer unless the next token begins a new toplevel entity
            init = self.parse_value(ty)
        align = None
        while self.accept(","):
            w = self.next()[1]
            if w == "align":
                align = int(self.next()[1])
            elif w == "section":
                self.next()
            elif w == "comdat":
                if self.peek()[1] == "(":
                    self.skip_balanced()
            elif w.startswith("!"):
                self.next()
            else:
                raise IRError("global suffix %r" % w)
        self.mod.globals[name] = Global(name, ty, init, kind == "constant", linkage, align, tls)

    # -- functions
    def parse_function(self, is_def):
        linkage = []
        while self.peek()[0] == "word" and (self.peek()[1] in _LINKAGE or self.peek()[1] in _CCONV):
            linkage.append(self.next()[1])
        retattrs = self.skip_param_attrs()
        ret = self.parse_type_nofunc()
        name = _unq(self.next()[1][1:])
        self.expect("(")
        params = []
        va = False
        idx = 0
        if not self.accept(")"):
            while True:
                if self.accept("..."):
                    va = True
                else:
                    pt = self.parse_type()
                    pa = self.skip_param_attrs()
                    pn = None
                    if self.peek()[0] == "lvar":
                        pn = _unq(self.next()[1][1:])
                    params.append((pt, pn, pa))
                if self.accept(")"):
                    break
                self.expect(",")
        # unnamed params get sequential numbers
        cnt = 0
        newp = []
        for (pt, pn, pa) in params:
            if pn is None:
                pn = str(cnt)
            if pn.isdigit():
                cnt = int(pn) + 1
            newp.append((pt, pn, pa))
        params = newp
        attrs = set()
        personality = None
        while True:
            k, v = self.peek()
            if k == "attr":
                self.next()
                attrs.add(v)
            elif k == "word" and v in ("unnamed_addr", "local_unnamed_addr"):
                self.next()
            elif k == "word" and v in ("align",):
                self.next(); self.next()
            elif k == "word" and v == "section":
                self.next(); self.next()
            elif k == "word" and v == "comdat":
                self.next()
                if self.peek()[1] == "(":
                    self.skip_balanced()
            elif k == "word" and v == "personality":
                self.next()
                personality = self.parse_typed_value()
            elif k == "word" and v in ("gc", "prefix", "prologue"):
                self.next(); self.next()
            elif k == "word" and v in ("nounwind", "noreturn", "readnone", "readonly", "willreturn", "mustprogress",
                                        "nofree", "nosync", "norecurse", "noinline", "uwtable", "cold", "inlinehint",
                                        "alwaysinline", "optnone", "argmemonly", "writeonly", "speculatable", "nocallback"):
                self.next()
                attrs.add(v)
            elif k == "meta":
                self.next(); self.next()
            else:
                break
        f = Function(name, ret, params, va, attrs, linkage)
        f.personality = personality
        f._cnt0 = cnt
        if is_def:
            self.expect("{")
            self.parse_body(f)
        prev = self.mod.funcs.get(name)
        if prev is None or prev.is_decl:
            self.mod.funcs[name] = f

    def parse_type_nofunc(self):
        # return type followed by @name( ... : avoid swallowing '(' as function type
        k, v = self.next()
        self.i -= 1
        # parse base type then pointers only
        save = self.i
        t = self.parse_type_base()
        return t

    def parse_type_base(self):
        # like parse_type but a '(' suffix only counts if followed eventually by ')' '*'
        # Strategy: parse normally but stop before '(' if token before '(' ... we detect gvar precedes '('
        k, v = self.next()
        self.i -= 1
        # temporarily parse without func suffix
        t = self._parse_type_nosuffix()
        while True:
            if self.accept("*"):
                t = PtrT(t)
            elif self.peek()[1] == "(" and self.peek()[0] == "p":
                # function type suffix only if the matching ')' is followed by '*'
                j = self.i
                d = 0
                while True:
                    tk = self.toks[j]
                    if tk[0] not in ("str", "cstr"):
                        if tk[1] == "(":
                            d += 1
                        elif tk[1] == ")":
                            d -= 1
                            if d == 0:
                                break
                    j += 1
                if self.toks[j + 1][1] == "*" or self.toks[j + 1][0] in ("gvar", "lvar"):
                    self.next()
                    ps = []
                    va = False
                    if not self.accept(")"):
                        while True:
                            if self.accept("..."):
                                va = True
                            else:
                                ps.append(self.parse_type())
                            if self.accept(")"):
                                break
                            self.expect(",")
                    t = Type("func", ret=t, params=ps, vararg=va)
                else:
                    break
            else:
                break
        return t

    def _parse_type_nosuffix(self):
        # parse a type without consuming '*' or '(' suffixes at the outermost level
        k, v = self.peek()
        if k == "word" or k == "lvar":
            self.next()
            if k == "lvar":
                return Type("named", name=_unq(v[1:]))
            if v == "void":
                return VOID
            if v[0] == "i" and v[1:].isdigit():
                return IntT(int(v[1:]))
            return {"float": FLOAT, "double": DOUBLE, "half": HALF, "x86_fp80": FP80, "label": LABEL,
                    "metadata": METADATA, "token": TOKEN}[v]
        # aggregate: use parse_type but it may consume suffixes; aggregates followed by '(' are rare
        save = self.i
        # manual: parse aggregate
        k, v = self.next()
        if v == "[":
            n = int(self.next()[1]); self.expect("x"); e = self.parse_type(); self.expect("]")
            return Type("array", n=n, elem=e)
        if v == "<":
            if self.accept("{"):
                fs = self.parse_type_list("}"); self.expect(">")
                return Type("struct", fields=fs, packed=True)
            n = int(self.next()[1]); self.expect("x"); e = self.parse_type(); self.expect(">")
            return Type("vector", n=n, elem=e)
        if v == "{":
            fs = self.parse_type_list("}")
            return Type("struct", fields=fs, packed=False)
        raise IRError("type %r" % ((k, v),))

    # -- function bodies
    def parse_body(self, f):
        cnt = f._cnt0
        cur = None

        def newblock(name):
            b = Block(name)
            f.blocks.append(b)
            f.bmap[name] = b
            return b

        while True:
            k, v = self.peek()
            if v == "}" and k == "p":
                self.next()
                break
            if k == "label":
                self.next()
                cur = newblock(_unq(v[:-1]))
                if v[:-1].isdigit():
                    cnt = int(v[:-1]) + 1
                continue
            if cur is None:
                cur = newblock(str(cnt))
                cnt += 1
            res = None
            if k == "lvar" and self.peek(1)[1] == "=":
                res = _unq(v[1:])
                self.next(); self.next()
                if res.isdigit():
                    cnt = int(res) + 1
            ins = self.parse_instr(res)
            if ins.res is None and ins.ty is not None and ins.ty.kind != "void" and ins.op in ("call", "invoke"):
                ins.res = str(cnt)
                cnt += 1
            ins.block = cur
            cur.instrs.append(ins)
            if ins.op in ("br", "ret", "switch", "unreachable", "resume", "invoke", "indirectbr"):
                cur = None
        # CFG
        for b in f.blocks:
            t = b.term
            tg = []
            if t.op == "br":
                tg = list(t.attrs["targets"])
            elif t.op == "switch":
                tg = [t.attrs["default"]] + [c[1] for c in t.attrs["cases"]]
            elif t.op == "invoke":
                tg = [t.attrs["normal"], t.attrs["unwind"]]
            seen = []
            for x in tg:
                if x not in seen:
                    seen.append(x)
            b.succs = [f.bmap[x] for x in seen]
            for s in b.succs:
                s.preds.append(b)

    def skip_instr_meta(self):
        while self.peek()[1] == "," and self.peek(1)[0] == "meta":
            self.next(); self.next()
            if self.peek()[0] == "meta":
                self.next()
            elif self.peek()[1] in ("{", "("):
                self.skip_balanced()

    def parse_label(self):
        self.expect("label")
        return _unq(self.next()[1][1:])

    def parse_instr(self, res):
        k, op = self.next()
        P = self
        if op in _BINOPS:
            flags = []
            while P.peek()[0] == "word" and (P.peek()[1] in {"nuw", "nsw", "exact"} or P.peek()[1] in _FMF):
                flags.append(P.next()[1])
            t = P.parse_type()
            a = P.parse_value(t)
            P.expect(",")
            b = P.parse_value(t)
            ins = Instr(op, res, t, [a, b], flags=flags)
        elif op == "fneg":
            flags = []
            while P.peek()[0] == "word" and P.peek()[1] in _FMF:
                flags.append(P.next()[1])
            t = P.parse_type()
            a = P.parse_value(t)
            ins = Instr(op, res, t, [a], flags=flags)
        elif op in _CASTS:
            a = P.parse_typed_value()
            P.expect("to")
            t = P.parse_type()
            ins = Instr(op, res, t, [a])
        elif op in ("icmp", "fcmp"):
            flags = []
            while P.peek()[0] == "word" and P.peek()[1] in _FMF:
                flags.append(P.next()[1])
            pred = P.next()[1]
            t = P.parse_type()
            a = P.parse_value(t)
            P.expect(",")
            b = P.parse_value(t)
            rt = I1 if t.kind != "vector" else Type("vector", n=t.n, elem=I1)
            ins = Instr(op, res, rt, [a, b], pred=pred)
        elif op == "select":
            while P.peek()[0] == "word" and P.peek()[1] in _FMF:
                P.next()
            c = P.parse_typed_value()
            P.expect(",")
            a = P.parse_typed_value()
            P.expect(",")
            b = P.parse_typed_value()
            ins = Instr(op, res, a.ty, [c, a, b])
        elif op == "phi":
            while P.peek()[0] == "word" and P.peek()[1] in _FMF:
                P.next()
            t = P.parse_type()
            inc = []
            while True:
                P.expect("[")
                v = P.parse_value(t)
                P.expect(",")
                lb = _unq(P.next()[1][1:])
                P.expect("]")
                inc.append((v, lb))
                if P.peek()[1] == "," and P.peek(1)[1] == "[":
                    P.next()
                else:
                    break
            ins = Instr(op, res, t, [v for v, _ in inc], incoming=inc)
        elif op == "alloca":
            P.accept("inalloca")
            t = P.parse_type()
            n = None
            align = None
            while P.peek()[1] == "," and P.peek(1)[0] != "meta":
                P.next()
                if P.accept("align"):
                    align = int(P.next()[1])
                elif P.at_word("addrspace"):
                    P.next(); P.skip_balanced()
                else:
                    n = P.parse_typed_value()
            ins = Instr(op, res, PtrT(t), [n] if n is not None else [], elty=t, align=align)
        elif op == "load":
            atomic = P.accept("atomic")
            vol = P.accept("volatile")
            t = P.parse_type()
            P.expect(",")
            p = P.parse_typed_value()
            order = None
            if atomic:
                if P.at_word("syncscope"):
                    P.next(); P.skip_balanced()
                order = P.next()[1]
            align = None
            if P.peek()[1] == "," and P.peek(1)[1] == "align":
                P.next(); P.next(); align = int(P.next()[1])
            ins = Instr(op, res, t, [p], atomic=atomic, volatile=vol, order=order, align=align)
        elif op == "store":
            atomic = P.accept("atomic")
            vol = P.accept("volatile")
            v = P.parse_typed_value()
            P.expect(",")
            p = P.parse_typed_value()
            order = None
            if atomic:
                if P.at_word("syncscope"):
                    P.next(); P.skip_balanced()
                order = P.next()[1]
            align = None
            if P.peek()[1] == "," and P.peek(1)[1] == "align":
                P.next(); P.next(); align = int(P.next()[1])
            ins = Instr(op, None, VOID, [v, p], atomic=atomic, volatile=vol, order=order, align=align)
        elif op == "getelementptr":
            inb = P.accept("inbounds")
            st = P.parse_type()
            P.expect(",")
            base = P.parse_typed_value()
            idx = []
            while P.peek()[1] == "," and P.peek(1)[0] != "meta":
                P.next()
                P.accept("inrange")
                idx.append(P.parse_typed_value())
            rt = self.gep_result_type(st, base, idx)
            ins = Instr(op, res, rt, [base] + idx, srcty=st, inbounds=inb)
        elif op in ("call", "invoke"):
            tail = None
            ins = self.parse_call(op, res)
        elif op in ("tail", "musttail", "notail"):
            P.expect("call")
            ins = self.parse_call("call", res)
        elif op == "ret":
            t = P.parse_type()
            if t.kind == "void":
                ins = Instr(op, None, VOID, [])
            else:
                ins = Instr(op, None, VOID, [P.parse_value(t)])
        elif op == "br":
            if P.at_word("label"):
                l = P.parse_label()
                ins = Instr(op, None, VOID, [], targets=[l])
            else:
                c = P.parse_typed_value()
                P.expect(",")
                a = P.parse_label()
                P.expect(",")
                b = P.parse_label()
                ins = Instr(op, None, VOID, [c], targets=[a, b])
        elif op == "switch":
            v = P.parse_typed_value()
            P.expect(",")
            d = P.parse_label()
            P.expect("[")
            cases = []
            while not P.accept("]"):
                cv = P.parse_typed_value()
                P.expect(",")
                cl = P.parse_label()
                cases.append((cv.v, cl))
            ins = Instr(op, None, VOID, [v], default=d, cases=cases)
        elif op == "unreachable":
            ins = Instr(op, None, VOID, [])
        elif op == "resume":
            v = P.parse_typed_value()
            ins = Instr(op, None, VOID, [v])
        elif op == "landingpad":
            t = P.parse_type()
            cleanup = P.accept("cleanup")
            clauses = []
            while P.at_word("catch", "filter"):
                kind = P.next()[1]
                cv = P.parse_typed_value()
                clauses.append((kind, cv))
            ins = Instr(op, res, t, [], cleanup=cleanup, clauses=clauses)
        elif op == "extractvalue":
            a = P.parse_typed_value()
            idx = []
            while P.peek()[1] == "," and P.peek(1)[0] == "num":
                P.next()
                idx.append(int(P.next()[1]))
            t = a.ty
            for i in idx:
                tt = self.mod_resolve_late(t)
                t = tt.fields[i] if tt.kind == "struct" else tt.elem
            ins = Instr(op, res, t, [a], idx=idx)
        elif op == "insertvalue":
            a = P.parse_typed_value()
            P.expect(",")
            b = P.parse_typed_value()
            idx = []
            while P.peek()[1] == "," and P.peek(1)[0] == "num":
                P.next()
                idx.append(int(P.next()[1]))
            ins = Instr(op, res, a.ty, [a, b], idx=idx)
        elif op == "extractelement":
            a = P.parse_typed_value()
            P.expect(",")
            i = P.parse_typed_value()
            ins = Instr(op, res, a.ty.elem, [a, i])
        elif op == "insertelement":
            a = P.parse_typed_value()
            P.expect(",")
            b = P.parse_typed_value()
            P.expect(",")
            i = P.parse_typed_value()
            ins = Instr(op, res, a.ty, [a, b, i])
        elif op == "shufflevector":
            a = P.parse_typed_value()
            P.expect(",")
            b = P.parse_typed_value()
            P.expect(",")
            m = P.parse_typed_value()
            if m.kind == "vector":
                mask = [(-1 if o.kind == "undef" else o.v) for o in m.ops]
            elif m.kind in ("zero",):
                mask = [0] * m.ty.n
            elif m.kind == "undef":
                mask = [-1] * m.ty.n
            else:
                raise IRError("shuffle mask")
            ins = Instr(op, res, Type("vector", n=len(mask), elem=a.ty.elem), [a, b], mask=mask)
        elif op == "atomicrmw":
            P.accept("volatile")
            rmw = P.next()[1]
            p = P.parse_typed_value()
            P.expect(",")
            v = P.parse_typed_value()
            if P.at_word("syncscope"):
                P.next(); P.skip_balanced()
            order = P.next()[1]
            if P.peek()[1] == "," and P.peek(1)[1] == "align":
                P.next(); P.next(); P.next()
            ins = Instr(op, res, v.ty, [p, v], rmw=rmw, order=order)
        elif op == "cmpxchg":
            weak = P.accept("weak")
            P.accept("volatile")
            p = P.parse_typed_value()
            P.expect(",")
            c = P.parse_typed_value()
            P.expect(",")
            n = P.parse_typed_value()
            if P.at_word("syncscope"):
                P.next(); P.skip_balanced()
            o1 = P.next()[1]
            o2 = P.next()[1]
            if P.peek()[1] == "," and P.peek(1)[1] == "align":
                P.next(); P.next(); P.next()
            ins = Instr(op, res, Type("struct", fields=[c.ty, I1]), [p, c, n], weak=weak)
        elif op == "fence":
            if P.at_word("syncscope"):
                P.next(); P.skip_balanced()
            order = P.next()[1]
            ins = Instr(op, None, VOID, [], order=order)
        elif op == "freeze":
            a = P.parse_typed_value()
            ins = Instr(op, res, a.ty, [a])
        elif op == "va_arg":
            a = P.parse_typed_value()
            P.expect(",")
            t = P.parse_type()
            ins = Instr(op, res, t, [a])
        else:
            raise IRError("unknown instruction %r near %s" % (op, self.toks[max(0, self.i - 6):self.i + 6]))
        self.skip_instr_meta()
        return ins

    def mod_resolve_late(self, t):
        while t.kind == "named":
            t = self.mod.types[t.name]
        return t

    def gep_result_type(self, st, base, idx):
        t = st
        for ix in idx[1:]:
            tt = self.mod_resolve_late(t)
            if tt.kind == "struct":
                t = tt.fields[ix.v]
            elif tt.kind in ("array", "vector"):
                t = tt.elem
            else:
                raise IRError("gep into %s" % tt)
        if base.ty.kind == "vector":
            return Type("vector", n=base.ty.n, elem=PtrT(t))
        return PtrT(t)

    def parse_call(self, op, res):
        P = self
        while P.peek()[0] == "word" and (P.peek()[1] in _FMF or P.peek()[1] in _CCONV):
            P.next()
        P.skip_param_attrs()
        if P.at_word("addrspace"):
            P.next(); P.skip_balanced()
        t = P.parse_type_base()
        # t is either the return type or a full function type (for varargs / some indirect calls)
        fty = None
        if t.kind == "func":
            fty = t
            ret = t.ret
        elif t.kind == "ptr" and t.elem.kind == "func" and P.peek()[0] not in ("gvar", "lvar"):
            ret = t
        else:
            ret = t
        callee = P.parse_value(PtrT(fty) if fty else None)
        P.expect("(")
        args = []
        pattrs = []
        if not P.accept(")"):
            while True:
                at = P.parse_type()
                pa = P.skip_param_attrs()
                args.append(P.parse_value(at))
                pattrs.append(pa)
                if P.accept(")"):
                    break
                P.expect(",")
        attrs = set()
        while True:
            k, v = P.peek()
            if k == "attr":
                attrs.add(v)
                P.next()
            elif k == "word" and v in ("nounwind", "noreturn", "readnone", "readonly", "willreturn", "nobuiltin",
                                        "builtin", "cold", "nomerge", "writeonly", "argmemonly", "inaccessiblememonly",
                                        "nofree", "nosync", "mustprogress", "noinline", "alwaysinline", "speculatable"):
                attrs.add(v)
                P.next()
            else:
                break
        if P.peek()[1] == "[" and P.peek()[0] == "p":
            P.skip_balanced()  # operand bundles
        kw = dict(callee=callee, cattrs=attrs, fty=fty, pattrs=pattrs)
        if op == "invoke":
            P.expect("to")
            kw["normal"] = P.parse_label()
            P.expect("unwind")
            kw["unwind"] = P.parse_label()
        ins = Instr(op, res if ret.kind != "void" else None, ret, args, **kw)
        return ins

    def finish(self):
        m = self.mod
        # expand attribute groups
        for f in m.funcs.values():
            a = set()
            for x in f.attrs:
                if x.startswith("#"):
                    a |= m.attrgroups.get(x, set())
                else:
                    a.add(x)
            f.attrs = a
            for ins in f.instrs():
                if ins.op in ("call", "invoke"):
                    a = set()
                    for x in ins.attrs["cattrs"]:
                        if x.startswith("#"):
                            a |= m.attrgroups.get(x, set())
                        else:
                            a.add(x)
                    ins.attrs["cattrs"] = a


def parse_file(path):
    with open(path) as fh:
        return Parser(fh.read()).parse()


def parse_text(text):
    return Parser(text).parse()


if __name__ == "__main__":
    import sys
    m = parse_file(sys.argv[1])
    print("types", len(m.types), "globals", len(m.globals), "funcs", len(m.funcs),
          "defs", sum(1 for f in m.funcs.values() if not f.is_decl))
    ops = {}
    for f in m.funcs.values():
        for i in f.instrs():
            ops[i.op] = ops.get(i.op, 0) + 1
    print(sorted(ops.items(), key=lambda x: -x[1]))
