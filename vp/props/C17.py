from runner import SmtUnit, SmtEntry, CbmcUnit, Entry, PathUnit, PathEntry

LEVEL = "other"
EXPLANATION = ("Index maps: SMT verdicts (z3, integers with explicit mod 2^64, Euclidean witnesses for div/mod, compositional lemma cuts) over ALL extents "
               "with total <= 2^63-1 (3-D sequence: each axis < 2^21): flatten/reshape and longIndex/coordsOf are mutually inverse, land in range, "
               "equal their unbounded-integer values (no wrap, no 32-bit intermediate) and are monotone; iterator algebra. "
               "Adaptors: cbmc bounded model checking of for_each / ActualArray3D / adaptors / getValueRange on a 2x2x3 volume with symbolic contents, coordinates, regions and shifts.")


def units(tier):
    q = tier == "quick"
    t = 30000 if q else 200000
    E = lambda n, d: SmtEntry(n, mode="FP", int_mode="INT", timeout_ms=t, desc=d)
    idx = SmtUnit("index", "harness/C17_index.cpp", [
        E("vp_main_seq2", "index_sequence_2D flatten/reshape inverse, in range, no wrap, row-major monotone; all extents with product <= 2^63-1"),
        E("vp_main_seq3", "index_sequence_3D flatten/reshape inverse, in range, no wrap; each axis < 2^21"),
        E("vp_main_iter", "iterator: begin=0, end=total, ++ adds 1 (both forms), *it = reshape(current), ==/!="),
        E("vp_main_array3d_index", "longProduct/longIndex/coordsOf on vec3i: inverse, in range, 64-bit without 32-bit intermediates; total <= 2^63-1"),
        E("vp_main_lemma_euclid", "cut lemma: (r + d*k) div d = k, mod d = r for 0<=r<d"),
    ], assumptions=["extents >= 1; totals <= 2^63-1 (3-D sequence form: each axis < 2^21)", "Euclid lemma instances assumed in the 3-level div/mod obligations are proved generally in vp_main_lemma_euclid"])
    uw = 14
    C = lambda n, d, uw=uw, **kw: Entry(n, unwind=uw, desc=d, bounds="2x2x3 volume / regions inside a 3x3x3 cube, unwind %d" % uw, timeout=600 if q else 3000, **kw)
    ad = CbmcUnit("array3d", "harness/C17_array3d.cpp", [
        C("vp_main_for_each", "for_each(lower,upper): every coordinate of the region exactly once, flattened order, nothing else; all regions in a 3x3x3 cube", uw=5),
        C("vp_main_actual", "ActualArray3D set/get round trip, flattened cell, clamping of outside coordinates"),
        C("vp_main_valuerange", "getValueRange bounds every value of a non-empty region and both bounds are attained", uw=4, unwindset={"ir_vp_main_valuerange.0": 14}),
        C("vp_main_adaptors", "IndexShifted, SubBox, Accessor<int,long>, Repeater sizes: the underlying cell their definition names"),
    ], heap_max=64, assumptions=["volume 2x2x3 (adaptors), regions within 3x3x3 (for_each)", "loadRAW/mmapRAW outside the claim", "Array3DRepeater::get semantics (mirrored repetition) not asserted"])
    ms = PathUnit("array3d_path", "harness/C17_array3d.cpp", [PathEntry("vp_main_multislice", desc="MultiSliceArray3D reads slice z (vp/llpath.py; cbmc gave no verdict within 3000 s)", wall=600)],
                  assumptions=["2x2x3 volume", "std::vector / shared_ptr are the real libstdc++ header code"])
    return [idx, ad, ms]
