from runner import CbmcUnit, Entry


def units(tier):
    q = tier == "quick"
    steps = 3 if q else 4
    return [CbmcUnit("refcount", "harness/C08_refcount.cpp", [
                Entry("vp_main_hist", unwind=steps + 2, timeout=900 if q else 3000,
                      desc="all histories over 2 objects (one derived), 3 handles, creator references: copy/move/raw/null assignment, copy/move/converting construction, refInc/refDec",
                      bounds="history length %d, 2 objects, 3 handles" % steps)],
                defines=["STEPS=%d" % steps], heap_max=64, assumptions=["self-move-assignment not exercised", "allocation never fails"]),
            CbmcUnit("refcount_mt", "harness/C08_refcount.cpp", [
                Entry("vp_main_threads", unwind=3, timeout=900, desc="two logical threads each taking 3 references to a shared object and dropping them: every access to the counter is atomic "
                      "or lock-protected (lockset race obligation), exact count afterwards, single destruction")],
                defines=["STEPS=1"], race=True, validate=False, assumptions=["data-race freedom by the lockset discipline (atomic accesses share the ATOMIC pseudo-lock); more than 2 threads and weak memory outside"])]
