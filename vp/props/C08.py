from runner import CbmcUnit, Entry


def units(tier):
    q = tier == "quick"
    steps = 3 if q else 4
    return [CbmcUnit("refcount", "harness/C08_refcount.cpp", [
                Entry("vp_main_hist", unwind=steps + 2, timeout=900 if q else 3000,
                      desc="all histories over 2 objects (one derived), 3 handles, creator references: copy/move/raw/null assignment, copy/move/converting construction, refInc/refDec",
                      bounds="history length %d, 2 objects, 3 handles" % steps)],
                defines=["STEPS=%d" % steps], heap_max=64, assumptions=["self-move-assignment not exercised", "allocation never fails"]),
            CbmcUnit("refcount_mt", "harness/C08_refcount.cpp", [
                Entry("vp_main_threads", unwind=3, timeout=900, desc="2 threads each taking 3 references to a shared object and dropping them: exact count, single destruction, all interleavings (SC)")],
                defines=["STEPS=1"], threads=True, validate=False, native_defines=["VP_NATIVE_BUILD"], assumptions=["sequential consistency, 2 threads"])]
