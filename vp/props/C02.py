from props.tasking_common import unit, E

LEVEL = "model_checking"


def ents(q):
    return [E("vp_main_schedule", "schedule(closure owning heap state): executed exactly once while the caller only yields; not executed again / task storage not touched by a later parallel_for", q),
            E("vp_main_schedule_burst", "a burst of 1..3 schedule() calls: each executed exactly once", q),
            E("vp_main_asynctask", "AsyncTask<Payload> (Payload counts constructions, destructions and assignments into dead storage) built in raw storage: get() == returned value for every int, finished() afterwards, result slot constructed before it is assigned, constructed == destroyed", q),
            E("vp_main_asynctask_heap", "heap AsyncTask<int> polled with finished(), read with get() and deleted at once: value complete, and no access to the freed task object by the task or the scheduler afterwards (heap obligations)", q),
            E("vp_main_asynctask_drop", "AsyncTask destroyed without get(): destructor waits, task ran exactly once", q)]


def units(tier):
    q = tier == "quick"
    us = [unit("internal_t1", ents(q), 1, 0, q), unit("internal_t2", ents(q), 2, 0, q), unit("serial", ents(q), 1, 0, q, internal=False), unit("internal_t2_p1", ents(q), 2, 1, q)]
    if not q:
        us += [unit("internal_t3", ents(q), 3, 0, q), unit("internal_t2_p2", ents(q), 2, 2, q), unit("internal_t3_p1", ents(q), 3, 1, q)]
    return us
