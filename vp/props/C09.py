from runner import CbmcUnit, Entry

OPAQUE = [r"basic_stringstream", r"basic_ostream", r"^_ZNSo", r"^_ZStls", r"^_ZNSt8ios_base", r"demangle", r"basic_ios", r"^_ZNKSt7__cxx1115basic_stringbuf", r"^_ZNSt6locale",
          r"^_ZSt16__ostream_insert", r"^_ZNSt7__cxx1118basic_stringstream", r"^_ZNSt7__cxx1115basic_stringbuf", r"^_ZNSt15basic_streambuf"]


def units(tier):
    q = tier == "quick"
    names = ["copyassign_ee", "copyassign_en", "copyassign_ne", "copyassign_nn", "moveassign_ee", "moveassign_en", "moveassign_ne", "moveassign_nn",
             "copyctor_e", "copyctor_n", "movector_e", "movector_n",
             "convcopyassign_ee", "convcopyassign_en", "convcopyassign_ne", "convcopyassign_nn", "convmoveassign_ee", "convmoveassign_en", "convmoveassign_ne", "convmoveassign_nn",
             "convcopyctor_e", "convcopyctor_n", "convmovector_e", "convmovector_n", "valueops_e", "valueops_n", "cmp_ee", "cmp_en", "cmp_ne", "cmp_nn", "conv"]
    ents = [Entry("vp_main_opt_" + n, unwind=10, timeout=600, desc="Optional<P> %s: has_value/value after the operation, copy independence, ghost lifetime map (ctor only on dead storage, "
                  "dtor/assign only on live objects, everything destroyed once)" % n) for n in names]
    ents += [Entry("vp_main_any_" + n, unwind=10, timeout=600, desc="Any %s" % n) for n in ["cmp_ee", "cmp_en", "cmp_ne", "cmp_nn", "value"]]
    return [CbmcUnit("optional_any", "harness/C09_optional.cpp", ents, heap_max=64, opaque=OPAQUE,
                     assumptions=["payload types: int/long (convertible pair), lifetime-instrumented P, over-aligned PA; std::string/vector payloads represented by the heap-free instrumented P",
                                  "engaged/empty combinations enumerated per entry (lifecycles concrete), payload values symbolic", "error-message formatting (stringstream, demangle) is opaque",
                                  "getEnvVar and toString text outside the claim"],
                     stubs=["iostream/stringstream/demangle members: opaque (havoc)", "__dynamic_cast: class-table model", "operator new/delete model"])]
