from runner import PathUnit, PathEntry

LEVEL = "model_checking"


def units(tier):
    q = tier == "quick"
    ph = 2 if q else 3
    hs = 4 if q else 6
    W = 900 if q else 6000
    P = lambda n, d: PathEntry(n, desc=d, wall=W, max_steps=(60000000 if q else 3000000000), max_paths=(400000 if q else 6000000))
    obs = PathUnit("observer", "harness/C19_observer.cpp", [
        P("vp_main_observer_hist", "every history of %d actions over one observable and up to three observers (create / destroy observer k, notify, poll k, destroy the observable): wasNotified() equals the reference, second poll false, nothing dangles in either destruction order (heap obligations)" % hs),
        P("vp_main_observer_a", "lifecycle A (2 observers throughout): every symbolic notify/poll pattern of length %d; second poll false" % ph),
        P("vp_main_observer_b", "lifecycle B: observer created after notifications, removed mid-way; 3 symbolic notify/poll phases of length %d" % ph),
        P("vp_main_observer_c", "lifecycle C: observable destroyed first; later polls false, nothing dangles"),
        P("vp_main_timestamp_step", "TimeStamp()/renew() take the global counter (symbolic start value) and bump it; copies/moves carry the value")],
        defines=["PH=%d" % ph, "HSTEPS=%d" % hs, "VP_PATH"], native_defines=["VP_NATIVE_BUILD"],
        assumptions=["counter wrap at 2^64 outside the claim", "copying Observer objects outside the claim", "histories of <= %d actions, <= 3 observers, one observable" % hs])
    ts = PathUnit("timestamp_mt", "harness/C19_observer.cpp", [
        P("vp_main_timestamp_threads", "2 threads x (create + renew): all four values distinct, each thread's increasing; every interleaving with <= %d preemptions at the atomic operations (atomic loads included)" % (2 if q else 4))],
        defines=["PH=1", "VP_PATH", "PREEMPT=%d" % (2 if q else 4)], native_defines=["VP_NATIVE_BUILD"], validate=False, replay_repeat=5,
        assumptions=["sequential consistency; 2 threads"], stubs=["threads: cooperative interleaving of whole IR instructions"])
    return [obs, ts]
