from runner import CbmcUnit, Entry


def units(tier):
    q = tier == "quick"
    steps = 3
    uw = steps + 3
    return [CbmcUnit("observer", "harness/C19_observer.cpp", [
                Entry("vp_main_observer_a", unwind=5, timeout=900, desc="lifecycle A (2 observers throughout): every notify/poll pattern of length 2 (quick) / 3 (thorough); second poll false"),
                Entry("vp_main_observer_b", unwind=5, timeout=900, desc="lifecycle B: observer created after notifications, removed mid-way; 3 symbolic notify/poll phases"),
                Entry("vp_main_observer_c", unwind=5, timeout=900, desc="lifecycle C: observable destroyed first; later polls false, nothing dangles"),
                Entry("vp_main_timestamp_step", unwind=3, desc="TimeStamp()/renew() take the global counter and bump it; copies/moves carry the value"),
            ], defines=["PH=%d" % (2 if q else 3)], heap_max=64, assumptions=["counter wrap at 2^64 outside the claim", "copying Observer objects outside the claim"]),
            CbmcUnit("timestamp_mt", "harness/C19_observer.cpp", [
                Entry("vp_main_timestamp_threads", unwind=3, desc="2 threads x (create + renew): all four values distinct, each thread's increasing; all interleavings (SC)"),
            ], defines=["PH=1"], threads=True, validate=False, native_defines=["VP_NATIVE_BUILD"],
                assumptions=["sequential consistency; 2 threads"])]
