from runner import SmtUnit, SmtEntry

LEVEL = "other"
EXPLANATION = ("SMT verdicts over all boxes/points/rays/affine maps: range.h/box.h/AffineSpace.h code lowered to LLVM IR and executed "
               "symbolically. Set predicates (contains, extend, empty, intersectionOf, disjoint, touchingOrOverlapping, clamp, ==) are decided "
               "bit-precisely (IEEE floats without NaN, +-inf allowed; int32 as bit-vectors); xfmBounds and intersectRayBox over exact reals.")


def units(tier):
    q = tier == "quick"
    t = 20000 if q else 120000
    E = lambda n, mode, d: SmtEntry(n, mode=mode, timeout_ms=t, desc=d, max_paths=4000)
    ents = [E("vp_main_set_%s" % n, "FP", "range/box<%s>: contains, empty, extend(point/box), empty-box identity, clamp, ==, !=" % n)
            for n in (["f1", "f3", "i2", "i3"] if q else ["f1", "f2", "f3", "f4", "i1", "i2", "i3", "i4", "f3a"])]
    ents += [E("vp_main_inter_%s" % n, "FP", "box<%s>: intersectionOf, disjoint, touchingOrOverlapping" % n)
             for n in (["f3", "i2"] if q else ["f2", "f3", "i2", "i3", "f3a"])]
    ents.append(E("vp_main_defs", "FP", "size, center, area(2D/3D), volume, box*scale, box+translation = their definitions"))
    ents.append(E("vp_main_xfmbounds", "REAL", "xfmBounds contains the image of every point of a non-empty box (per axis); x-faces attained by corners"))
    ents.append(E("vp_main_raybox2", "REAL", "intersectRayBox N=2: t in [lo,hi] <=> org+t*dir in box and t in tRange (non-parallel rays)"))
    ents.append(E("vp_main_raybox3", "REAL", "intersectRayBox N=3"))
    if not q:
        ents.append(E("vp_main_xfmbounds_a", "REAL", "xfmBounds, padded vec3fa instantiation"))
    return [SmtUnit("box", "harness/C05_box.cpp", ents,
                    assumptions=["NaN excluded; +-inf allowed for the set predicates", "int32 coordinates within +-1e9 (no overflow in size())",
                                 "xfmBounds / intersectRayBox over exact reals (rounding not decided); ray directions with |d_k| >= 1e-30 (axis-parallel rays outside the claim); rcp_safe = exact reciprocal there",
                                 "fromString and operator<< outside the claim"])]
