from runner import SmtUnit, SmtEntry

LEVEL = "other"
EXPLANATION = ("Each obligation is an SMT (z3 nlsat) verdict over ALL real-valued inputs: the real LinearSpace/AffineSpace/Quaternion "
               "code is compiled to LLVM IR, executed symbolically with floats interpreted as exact reals (REAL mode) and the algebraic "
               "law is asserted against a textbook formula written independently in the harness. The claim is 'the code computes the "
               "right formula on every branch'; the magnitude of float rounding error (the tolerance half of the property) is not decided.")


def units(tier):
    q = tier == "quick"
    t = 20000 if q else 120000
    E = lambda n, d, **kw: SmtEntry(n, mode="REAL", timeout_ms=t, desc=d, wall=600 if q else 3000, **kw)
    ents = [
        E("vp_main_l3_inverse", "3x3: det, M*inverse(M)=I both sides, rcp(M)*M=I, M*adjoint=det*I, all real M with det!=0"),
        E("vp_main_l3_defs", "3x3: transposed/rows/M*p/xfmPoint/xfmVector/(AB)p=A(Bp)/det(AB)/scale/scalar ops"),
        E("vp_main_l3_xfmnormal", "xfmNormal applies transpose(inverse(M)) (cut on inverse)"),
        E("vp_main_l3_rotate", "rotate(u,theta): orthogonal, det +1, fixes axis, trace, sense, all unit u and angles"),
        E("vp_main_quat_algebra", "quaternion product associative, norm multiplicative, conj/dot/+/-/scalar, q*rcp(q)=1"),
        E("vp_main_quat_matrix", "LinearSpace3(q) orthogonal, det +1, q v conj(q) = M v for all unit q"),
        E("vp_main_quat_rotate", "Quaternion::rotate(u,t) components; equals LinearSpace3::rotate(u,t) (half-angle contract)"),
        E("vp_main_quat_from_matrix0", "quaternion-from-basis branch trace>=0 returns +-q"),
        E("vp_main_quat_from_matrix1", "branch vx.x largest"),
        E("vp_main_quat_from_matrix2", "branch vy.y largest"),
        E("vp_main_quat_from_matrix3", "branch vz.z largest"),
        E("vp_main_quat_slerp_id", "slerp(t,a,identity) for all unit a with |a.r| <= 0.9995 and all t in [0,1]: unit result, end points, invariant under a -> -a (sin/cos/acos: functions with s^2+c^2=1 and cos(acos d)=d; general b gives no verdict in 20 s)"),
        E("vp_main_quat_ypr", "yaw/pitch/roll constructor = q_y q_x q_z, unit"),
        E("vp_main_affine", "affine xfmPoint/xfmVector/(A*B)(p)/translate/scale"),
        E("vp_main_affine_rcp", "rcp(A)*A = identity map; affine xfmNormal"),
        E("vp_main_affine_rotate_point", "rotate about point+axis fixes the point; linear part"),
        E("vp_main_lookat", "lookat: origin = eye, Z = normalize(point-eye), U unit and orthogonal to Z, V = U x Z"),
        E("vp_main_lemma_cross", "cut lemma: unit orthogonal U,Z => (U, U x Z, Z) orthonormal with det -1"),
        E("vp_main_frame0", "frame(N) branch dx0: orthonormal, third axis N"),
        E("vp_main_frame1", "frame(N) branch dx1"),
        E("vp_main_l2", "2x2: det, product, inverse, transposed, rows, rotate, rotate about point"),
    ]
    us = [SmtUnit("linear_f", "harness/C06_linear.cpp", ents,
                  assumptions=["REAL mode: float operations are exact real operations (rounding error magnitude not decided)",
                               "rcp.ss/rsqrt.ss idealised as exact reciprocal (square root); their accuracy is C07's obligation",
                               "sin/cos: only s^2+c^2=1 per argument (+ double-angle link where stated in the harness); acos(d): an angle in [0,pi] with cosine d (|d| <= 1 assumed)",
                               "preconditions as in the property: det != 0, unit axes/quaternions"])]
    if not q:
        us.append(SmtUnit("linear_fa", "harness/C06_linear.cpp", ents, defines=["VEC3=vec3fa"],
                          assumptions=["padded vector instantiation vec3fa"]))
    return us
