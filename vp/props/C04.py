from runner import SmtUnit, SmtEntry

LEVEL = "other"
EXPLANATION = ("Each obligation is an SMT verdict over ALL operand values of the instantiated machine types: the real vec.h operators are "
               "compiled to LLVM IR and executed symbolically (integers as bit-vectors, floats as IEEE-754 FloatingPoint terms, or - for the "
               "float-only families - as uninterpreted operations so that equality holds for every float semantics); component k of every "
               "result is asserted equal to the scalar definition applied to component k (selected by member name). Kernels are loop-free, so "
               "the only bounds are the instantiation list and the stated input restrictions.")

INT_TYPES = ["uc", "c", "us", "s", "ui", "i", "ul", "l"]


def units(tier):
    q = tier == "quick"
    t = 20000 if q else 120000
    ents = []
    shapes = ["2", "3", "4"]
    types_q = ["uc", "i", "f"]
    for ty in (types_q if q else INT_TYPES + ["f", "d"]):
        for sh in shapes:
            ents.append(SmtEntry("vp_main_arith_%s%s" % (ty, sh), mode="FP", int_mode="BV" if ty in ("f", "d") else "INT", timeout_ms=t, max_paths=2000, wall=900 if q else 3000,
                                 desc="vec%s%s: unary, + - * in vec/scalar/compound forms, [], pointer view, ctors" % (sh, ty)))
    for ty in (types_q if q else INT_TYPES + ["f", "d"]):
        for sh in shapes:
            ents.append(SmtEntry("vp_main_cmp_%s%s" % (ty, sh), mode="FP", timeout_ms=t, max_paths=2000, wall=900 if q else 3000,
                                 desc="vec%s%s: min/max, ==, !=, anyLessThan, reductions, std::less (lexicographic, irreflexive, asymmetric)" % (sh, ty)))
    ents.append(SmtEntry("vp_main_cmp_f3a", mode="FP", timeout_ms=t, max_paths=2000, desc="vec3fa comparisons"))
    ents.append(SmtEntry("vp_main_arith_f3a", mode="FP", int_mode="BV", timeout_ms=t, max_paths=2000, desc="vec3fa (padded)"))
    ents.append(SmtEntry("vp_main_arith_i3a", mode="FP", int_mode="INT", timeout_ms=t, max_paths=2000, desc="vec3ia (padded)"))
    for ty in (["i", "uc"] if q else ["uc", "s", "ui", "i", "ul", "l"]):
        for sh in shapes:
            ents.append(SmtEntry("vp_main_divmod_%s%s" % (ty, sh), mode="FP", int_mode="INT", timeout_ms=t, desc="vec%s%s: / %% /= %%= with non-zero divisors" % (sh, ty)))
    ents.append(SmtEntry("vp_main_divmod_i3a", mode="FP", int_mode="INT", timeout_ms=t, desc="vec3ia / %"))
    for ty in ["f", "d"]:
        for sh in shapes:
            ents.append(SmtEntry("vp_main_float_%s%s" % (ty, sh), mode="UF", timeout_ms=t,
                                 desc="vec%s%s float families (/ rcp rcp_safe abs sin cos madd dot length normalize reduce_add) as uninterpreted-op equivalence" % (sh, ty)))
    ents.append(SmtEntry("vp_main_float_f3a", mode="UF", timeout_ms=t, desc="vec3fa float families"))
    for n in ["cross_f", "cross_fa", "cross_i", "cross_d", "convert", "mixed", "interp"]:
        ents.append(SmtEntry("vp_main_" + n, mode="FP", timeout_ms=t, desc=n))
    return [SmtUnit("vec", "harness/C04_vec.cpp", ents,
                    assumptions=["signed 32/64-bit inputs restricted to |x| <= 2^15-1 / 2^31-1 so that + - * do not overflow (overflow is undefined for the scalar op as well)",
                                 "divisors non-zero for / and %", "NaN inputs excluded for the comparison/min/max/reduction families",
                                 "integer arithmetic families are encoded over mathematical integers with explicit mod 2^w (INT mode), comparisons over bit-vectors", "float sums (dot, reduce_add, interpolate_uv) may equal any listed association order",
                                 "libm sin/cos and x86 rcpss/rsqrtss are uninterpreted functions (same function on both sides)",
                                 "operator<< (iostream text) is outside the claim"])]
