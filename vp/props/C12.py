from runner import CbmcUnit, Entry, PathUnit, PathEntry


def units(tier):
    q = tier == "quick"
    nops = 4 if q else 6
    return [CbmcUnit("transactional", "harness/C12_transactional.cpp", [
        Entry("vp_main_value", unwind=nops + 2, timeout=900 if q else 3000,
              desc="TransactionalValue<int>: all operation-level interleavings of a producer (2 assignments) and a consumer (update/get): values assigned, in order, update() truth, last value delivered; "
                   "lockset race obligation on every byte of the object", bounds="%d scheduled operations" % nops),
        Entry("vp_main_buffer", unwind=nops + 2, timeout=900 if q else 3000,
              desc="TransactionalBuffer<int>: 2 producers x 2 pushes, consumer consume/size/empty in all operation-level interleavings: each element in exactly one batch, per-producer order, no torn size; lockset race obligation",
              bounds="%d scheduled operations" % nops)],
        defines=["NOPS=%d" % nops], race=True, validate=False, heap_max=64,
        assumptions=["operations are explored as atomic steps; that they are critical sections is the lockset obligation on the object's own bytes (heap storage of the vector is reached only through them)",
                     "<= 2 producers, trivially copyable payload, sequential consistency"],
        stubs=["pthread_mutex_lock/unlock: lockset model (never contended in run-to-completion operations)"])] + [
        PathUnit("value_path", "harness/C12_path.cpp", [PathEntry("vp_main_value", wall=900 if q else 6000, max_steps=(100000000 if q else 2000000000), max_paths=(300000 if q else 5000000),
                 desc="TransactionalValue<two-word payload>, real std::mutex code, producer thread (2 assignments) vs consumer (6 x update/get), EVERY schedule with <= %d preemptions (also inside the operations): "
                      "values never torn / always assigned ones / in order; update() true exactly when newer; last value delivered" % (3 if q else 4))],
                 defines=["VP_PATH", "PREEMPT=%d" % (3 if q else 4)], native_defines=["VP_NATIVE_BUILD"], validate=False, replay_repeat=10,
                 assumptions=["sequentially consistent interleavings; preemptions placed before and after mutex operations, before atomic stores / read-modify-writes; data races as such are decided by the lockset unit"],
                 stubs=["pthread mutex: vp/llpath.py model"]),
        PathUnit("buffer_path", "harness/C12_path.cpp", [PathEntry("vp_main_buffer", wall=900 if q else 6000, max_steps=(100000000 if q else 2000000000), max_paths=(300000 if q else 5000000),
                 desc="TransactionalBuffer<int>, real std::mutex / std::vector code, 2 producer threads x 2 pushes vs consumer (size/empty/consume), EVERY schedule with <= %d preemptions: "
                      "each element in exactly one batch, per-producer order" % (2 if q else 3))],
                 defines=["VP_PATH", "PREEMPT=%d" % (2 if q else 3)], native_defines=["VP_NATIVE_BUILD"], validate=False, replay_repeat=10,
                 assumptions=["sequentially consistent interleavings; preemptions placed before and after mutex operations"], stubs=["pthread mutex: vp/llpath.py model"])]
