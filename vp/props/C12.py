from runner import CbmcUnit, Entry


def units(tier):
    q = tier == "quick"
    nops = 4 if q else 6
    return [CbmcUnit("transactional", "harness/C12_transactional.cpp", [
        Entry("vp_main_value", unwind=nops + 2, timeout=900 if q else 3000,
              desc="TransactionalValue<int>: all operation-level interleavings of a producer (2 assignments) and a consumer (update/get): values assigned, in order, update() truth, last value delivered; "
                   "lockset race obligation on every byte of the object", bounds="%d scheduled operations" % nops),
        Entry("vp_main_buffer", unwind=nops + 2, timeout=900 if q else 3000,
              desc="TransactionalBuffer<int>: 2 producers x 2 pushes, consumer consume/size/empty in all operation-level interleavings: each element in exactly one batch, per-producer order, no torn size; lockset race obligation",
              bounds="%d scheduled operations" % nops)],
        defines=["NOPS=%d" % nops], race=True, validate=False, heap_max=64,
        assumptions=["operations are explored as atomic steps; that they are critical sections is the lockset obligation on the object's own bytes (heap storage of the vector is reached only through them)",
                     "<= 2 producers, trivially copyable payload, sequential consistency"],
        stubs=["pthread_mutex_lock/unlock: lockset model (never contended in run-to-completion operations)"])]
