from runner import PathUnit, PathEntry

A = ["internal (enkiTS) back end compiled from source with -DRKCOMMON_TASKING_INTERNAL, and the serial-debug back end; TBB and OpenMP are closed libraries and are NOT checked (the property's 'every backend' is covered for 2 of 4)",
     "task counts -2..5 (blocks: -1..10), made concrete per value the solver finds feasible; counts >= 2^31 (the internal back end takes an int) are outside the claim",
     "libstdc++ containers/atomics are the real header code; pthread_create/sem_*/rdtsc/pause by model (vp/llpath.py); allocation never fails"]
UAF = r"MEM:use after free in _ZN4enki13TaskScheduler10TryRunTaskEjRj"


def unit(name, entries, threads, preempt, q, internal=True, validate=None, extra_defs=()):
    defs = (["RKCOMMON_TASKING_INTERNAL"] if internal else []) + ["VP_PATH", "THREADS=%d" % threads, "PREEMPT=%d" % preempt] + list(extra_defs)
    sched = ("one deterministic round-robin schedule (switches at blocking calls, yields and every 400th synchronisation point)" if preempt == 0 else
             "every schedule with at most %d preemption(s) at synchronisation calls / atomic and volatile accesses, plus free switches at blocking points" % preempt)
    return PathUnit(name, "harness/C13_tasking.cpp", entries, defines=defs, native_defines=["VP_NATIVE_BUILD"] + list(extra_defs), tolerate=[UAF] if internal else [],
                    replay_repeat=(6 if threads > 1 else 1), validate=(threads == 1 if validate is None else validate),
                    assumptions=A + ["%d tasking thread(s); %s" % (threads, sched) if internal else "serial back end: no threads"],
                    stubs=["threads: cooperative interleaving of whole IR instructions, sequentially consistent memory (weak-memory effects outside the claim)"])


def E(name, desc, q, wall=None):
    return PathEntry(name, desc=desc, wall=wall or (600 if q else 1500), max_steps=(30000000 if q else 600000000), max_paths=(100000 if q else 2000000))
