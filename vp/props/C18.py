from runner import SmtUnit, SmtEntry, PathUnit, PathEntry

LEVEL = "model_checking"


def units(tier):
    q = tier == "quick"
    W = 600 if q else 3000
    E = lambda n, d, b="": PathEntry(n, desc=d, wall=W, bounds=b)
    lens = [0, 1, 2, 3, 4, 5] if q else [0, 1, 2, 3, 4, 5, 6, 7]
    ents = []
    for n in lens:
        ents.append(E("vp_main_tokenize_%d" % n, "tokenize(str,':'): every string of %d arbitrary non-NUL bytes: tokens = maximal non-delimiter runs in order, incl. 1-character ones, no empty ones" % n, "string length %d" % n))
        ents.append(E("vp_main_split_%d" % n, "split(str,\",\"): every string of %d arbitrary non-NUL bytes: same law" % n, "string length %d" % n))
    for ab in (["0_0", "0_2", "2_0", "1_2", "2_1", "2_2", "3_3"] if q else ["0_0", "0_2", "2_0", "1_2", "2_1", "2_2", "3_2", "2_3", "3_3"]):
        ents.append(E("vp_main_prefix_" + ab, "longestBeginningMatch / beginsWith for all strings of lengths %s (arbitrary bytes)" % ab, "string lengths " + ab))
    ents.append(E("vp_main_case_2", "lowerCase/upperCase on every 2-byte string"))
    for n in ([1, 2, 3, 4, 5] if q else [1, 2, 3, 4, 5, 6]):
        ents.append(E("vp_main_filename_%d" % n, "FileName over every string of %d arbitrary non-NUL bytes: normalisation, path()+base(), name/ext/dropExt from the last component only" % n, "string length %d" % n))
    ents.append(E("vp_main_filename_compose", "FileName addExt / operator+"))
    ents.append(E("vp_main_removeargs", "removeArgs on a raw argument vector, all (ac, where, howMany) with ac <= 5"))
    ents.append(E("vp_main_url", "PseudoURL: type (0-2 letters or none) + '://' + file (1-2 chars over f . /) + two name[=value] pairs (names x/y, values 0-1 chars): parses back into exactly those parts, last duplicate wins, unknown name throws"))
    ents.append(E("vp_main_arglist", "ArgumentList + parseAndRemove with a parser consuming an arbitrary 0-2 arguments at each position, 0-4 arguments: exactly the unconsumed arguments remain, in order"))
    strs = PathUnit("strings", "harness/C18_strings.cpp", ents, defines=["VP_PATH"], native_defines=["VP_NATIVE_BUILD"],
                    assumptions=["string lengths as listed per entry (characters: arbitrary non-NUL bytes unless an alphabet is named)",
                                 "libstdc++'s std::string / std::vector code is the real header code compiled into the harness TU (instantiated by -D_GLIBCXX_ASSERTIONS, which also turns its precondition checks into obligations)",
                                 "split(input, char) (std::getline on a stringstream), canonical()/homeFolder() and printed decimal text are outside the claim", "allocation never fails"],
                    stubs=["libc: memchr/memcmp/strlen/memcpy/tolower/toupper by definition (vp/llpath.py models)", "operator new/delete: fresh blocks with red zones; use after free / double free / out of bounds are obligations"])
    pretty = SmtUnit("pretty", "harness/C18_pretty.cpp", [
        SmtEntry("vp_main_pretty_double", mode="REAL", timeout_ms=60000, desc="prettyDouble for every |val| in [1e-15,1e21]: suffix is an SI prefix, 1 <= |mantissa| <= 1000, mantissa*scale = val"),
        SmtEntry("vp_main_pretty_number", mode="REAL", timeout_ms=60000, desc="prettyNumber for every count >= 1000: same law")],
        native_defines=["VP_NATIVE_BUILD"],
        assumptions=["snprintf captured (format, mantissa, suffix) by harness callback; printed digits outside the claim", "exact reals for the threshold / division arithmetic (float constants exact)"])
    return [strs, pretty]
