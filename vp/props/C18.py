from runner import CbmcUnit, Entry, SmtUnit, SmtEntry
from props.C09 import OPAQUE

LEVEL = "model_checking"


def units(tier):
    q = tier == "quick"
    E = lambda n, d, uw=8, paths=False: Entry(n, unwind=uw, timeout=900 if q else 3000, desc=d, paths=paths)
    lens = [0, 1, 2] if q else [0, 1, 2, 3, 4]
    ents = []
    for n in lens:
        ents.append(E("vp_main_tokenize_%d" % n, "tokenize(str,':'): every string of length %d over {':','a','b'}: tokens = maximal non-delimiter runs incl. 1-character ones" % n))
        ents.append(E("vp_main_split_%d" % n, "split(str,\",\"): every string of length %d over {',','a','b'}" % n, paths=True))
    for ab in (["0_0", "0_2", "2_0", "1_2", "2_1", "2_2"] if q else ["0_0", "0_2", "2_0", "1_2", "2_1", "2_2", "3_2", "2_3", "3_3"]):
        ents.append(E("vp_main_prefix_" + ab, "longestBeginningMatch / beginsWith for all strings of lengths %s over {a,b}" % ab))
    ents.append(E("vp_main_case_2", "lowerCase/upperCase on every 2-byte string"))
    for n in ([1, 2, 3] if q else [1, 2, 3, 4, 5]):
        ents.append(E("vp_main_filename_%d" % n, "FileName over every string of length %d over {'/','.','a'}: normalisation, path()+base(), name/ext/dropExt from the last component only" % n, uw=10, paths=True))
    ents.append(E("vp_main_filename_compose", "FileName addExt / operator+", uw=10, paths=True))
    ents.append(E("vp_main_removeargs", "removeArgs on a raw argument vector, all (ac, where, howMany) with ac <= 5"))
    strs = CbmcUnit("strings", "harness/C18_strings.cpp", ents, heap_max=64, opaque=OPAQUE, object_bits=9, mem_unwind=20,
                    assumptions=["strings over 3-letter alphabets (delimiter, dot, separator, letters), lengths 0..%d" % max(lens), "libstdc++ std::string out-of-line members by model (vp/models/models_more.c)",
                                 "split(input, char) (getline/stringstream), PseudoURL parsing, ArgumentList, canonical()/homeFolder() and printed decimal text are outside the claim"],
                    stubs=["std::string model", "iostream: opaque"])
    pretty = SmtUnit("pretty", "harness/C18_pretty.cpp", [
        SmtEntry("vp_main_pretty_double", mode="REAL", timeout_ms=60000, desc="prettyDouble for every |val| in [1e-15,1e21]: suffix is an SI prefix, 1 <= |mantissa| <= 1000, mantissa*scale = val"),
        SmtEntry("vp_main_pretty_number", mode="REAL", timeout_ms=60000, desc="prettyNumber for every count >= 1000: same law")],
        assumptions=["snprintf captured (format, mantissa, suffix) by harness callback; printed digits outside the claim", "exact reals for the threshold / division arithmetic (float constants exact)"])
    return [strs, pretty]
