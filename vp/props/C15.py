from runner import CbmcUnit, Entry, PathUnit, PathEntry


def units(tier):
    q = tier == "quick"
    cap = 4 if q else 6
    uw = cap + 4
    T = 300 if q else 1800
    E = lambda n, d, uw=uw, **kw: Entry(n, unwind=uw, desc=d, bounds="capacity/data length <= %d bytes, size/count full 64-bit symbolic, unwind %d" % (cap, uw), timeout=T, **kw)
    entries = [
        E("vp_main_fixed_write", "FixedBufferWriter::write one step from arbitrary (capacity,cursor): accepted iff it fits; bytes land in place; no effect on rejection"),
        E("vp_main_fixed_reserve", "FixedBufferWriter::reserve one step"),
        E("vp_main_fixed_hist", "FixedBufferWriter real ctor, 2 writes, available/capacity/getWrittenView"),
        E("vp_main_reader_read", "BufferReader::read one step from arbitrary (n,cursor), 64-bit size; end()"),
        E("vp_main_reader_view_u8", "BufferReader::getView<uint8_t>(count), 64-bit count", paths=True),
        E("vp_main_roundtrip_pod", "int,double,struct,byte round trip; WriteSizeCalculator; end()", uw=10),
        E("vp_main_roundtrip_vec0", "std::vector<int> size 0 round trip", uw=10),
        E("vp_main_roundtrip_vec1", "std::vector<int> size 1 round trip", uw=10),
    ] + [
        E("vp_main_roundtrip_array0", "AbstractArray<int> size 0: size word + getView read back", uw=10),
        E("vp_main_roundtrip_array1", "AbstractArray<int> size 1", uw=10),
        E("vp_main_roundtrip_array2", "AbstractArray<int> size 2", uw=10),
        E("vp_main_roundtrip_str0", "std::string of length 0 round trip", uw=10),
        E("vp_main_roundtrip_str1", "std::string of length 1 (any byte incl. NUL) round trip", uw=10),
        E("vp_main_roundtrip_str2", "std::string of length 2 round trip", uw=10),
        E("vp_main_roundtrip_cstr", "C string written, std::string read", uw=10),
    ] + ([] if q else [E("vp_main_roundtrip_str3", "std::string of length 3 round trip", uw=10)]) + [
        E("vp_main_truncation", "every truncation point of a 5-byte stream throws", uw=10),
    ]
    return [CbmcUnit("stream", "harness/C15_stream.cpp", entries, defines=["CAPMAX=%d" % cap], heap_max=64, object_bits=10, mem_unwind=40,
                     assumptions=["allocation never fails", "capacity <= %d" % cap, "std::string payloads of length <= 2 (quick) / 3 (thorough) with every byte value, via the libstdc++ string model; vector<string> not covered"],
                     stubs=["operator new/delete = malloc/free model", "std::runtime_error ctor/dtor: type tag only"]),
            PathUnit("stream_path", "harness/C15_stream.cpp", [
                PathEntry("vp_main_roundtrip_vecstr", desc="vector<string> of 0-3 strings, each of length 0-2 or 17, every byte value: byte count, round trip through BufferWriter -> BufferReader, stale target contents replaced, consumed exactly", wall=600),
                PathEntry("vp_main_roundtrip_vec2", desc="std::vector<int> of 2 symbolic elements round trip (no verdict under cbmc within 1800 s)", wall=600),
                PathEntry("vp_main_roundtrip_vec3", desc="std::vector<int> of 3 symbolic elements round trip", wall=600),
                PathEntry("vp_main_roundtrip_str15", desc="std::string of 15 arbitrary bytes (largest small-string) round trip", wall=600),
                PathEntry("vp_main_roundtrip_str16", desc="std::string of 16 arbitrary bytes (first heap string) round trip", wall=600),
                PathEntry("vp_main_roundtrip_str33", desc="std::string of 33 arbitrary bytes round trip", wall=600)],
                defines=["CAPMAX=%d" % cap, "VP_PATH"],
                assumptions=["path engine (vp/llpath.py): libstdc++ string/vector are the real header code; allocation never fails"])]
