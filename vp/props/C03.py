from runner import CbmcUnit, Entry, PathUnit, PathEntry


def units(tier):
    q = tier == "quick"
    nops, nbody = (1, 1) if q else (2, 2)
    uw = nops + nbody + 3
    D = ("P1 no body begins after stop() returned; P2 no lost wake-up after start(); P3 destructor's notify un-parks the thread and it joins")
    return [CbmcUnit("asyncloop", "harness/C03_asyncloop.cpp", [
        Entry("vp_main_thread_launch", unwind=uw, timeout=1500 if q else 2400,
              desc="THREAD launch from a fresh (never started) loop: every sequence of <= %d further controller operations over {start, stop, destroy}, each injected (run to completion) at every "
                   "loop-thread scheduling point; %s" % (nops, D),
              bounds="<= %d controller operations, <= %d body invocations (unwinding assumption), unwind %d" % (nops, nbody, uw)),
        Entry("vp_main_thread_launch_started", unwind=uw, timeout=1500 if q else 2400,
              desc="same, after a start() that already returned (loop running): %s" % D,
              bounds="<= %d controller operations after the initial start, <= %d body invocations, unwind %d" % (nops, nbody, uw))],
        defines=["NOPS=%d" % nops, "NBODY=%d" % nbody], heap_max=64, validate=False, native_defines=["VP_NATIVE_BUILD"], c_defines=["VP_YIELD_BLOCKS"], object_bits=9,
        assumptions=["interleavings at the RKCOMMON_VERIF scheduling points of the loop thread with complete controller operations; schedules where the controller is suspended mid-operation "
                     "(points D-G) while the loop thread runs, weak memory, and the TBB execution of a TASK-launched loop are outside", "condition_variable: wake-up only by notify (no spurious wake-ups)",
                     "the loop thread performs at most NBODY body invocations (unwinding assumption, not assertion)"],
        stubs=["std::thread::_M_start_thread/join, condition_variable::wait/notify_one, pthread mutex: vp/models/models_more.c", "sched_yield in stop(): blocks (path ends) while the loop thread is suspended"]),
        PathUnit("asyncloop_path", "harness/C03_asyncloop_path.cpp", [
            PathEntry("vp_main_loop_thread", wall=900 if q else 6000, max_steps=(100000000 if q else 2000000000), max_paths=(200000 if q else 3000000),
                      desc="THREAD launch, real std::thread/mutex/condition_variable code on the path engine's thread model: [stop] start, wait for a body, stop, [start again], destroy - under EVERY schedule with <= %d preemptions "
                           "(also with the controller suspended mid-operation): body runs within bounded time after start() (no lost wake-up), nothing in progress or beginning after stop() returned, destructor joins" % (2 if q else 3))],
            defines=["VP_PATH", "PREEMPT=%d" % (2 if q else 3)], native_defines=["VP_NATIVE_BUILD"], validate=False, replay_repeat=8,
            assumptions=["sequentially consistent interleavings; preemptions placed before synchronisation calls, atomic stores and read-modify-writes, condition waits; no spurious wake-ups",
                         "TASK launch (runs on the TBB arena) is outside"],
            stubs=["pthread mutex / condition_variable wait+notify / std::thread start+join: vp/llpath.py models"])]
