from runner import CbmcUnit, Entry


def units(tier):
    q = tier == "quick"
    nops, nbody = (2, 1) if q else (3, 2)
    uw = nops + nbody + 3
    return [CbmcUnit("asyncloop", "harness/C03_asyncloop.cpp", [
        Entry("vp_main_thread_launch", unwind=uw, timeout=1200 if q else 3600,
              desc="THREAD launch: every sequence of <= %d controller operations over {start, stop, destroy}, each injected (run to completion) at every loop-thread scheduling point; "
                   "P1 no body begins after stop() returned; P2 no lost wake-up after start(); P3 destructor's notify un-parks the thread and it joins" % nops,
              bounds="<= %d controller operations, <= %d body invocations (unwinding assumption), unwind %d" % (nops, nbody, uw))],
        defines=["NOPS=%d" % nops, "NBODY=%d" % nbody], heap_max=64, validate=False, native_defines=["VP_NATIVE_BUILD"], c_defines=["VP_YIELD_BLOCKS"], object_bits=9,
        assumptions=["interleavings at the RKCOMMON_VERIF scheduling points of the loop thread with complete controller operations; schedules where the controller is suspended mid-operation "
                     "(points D-G) while the loop thread runs, weak memory, and the TBB execution of a TASK-launched loop are outside", "condition_variable: wake-up only by notify (no spurious wake-ups)",
                     "the loop thread performs at most NBODY body invocations (unwinding assumption, not assertion)"],
        stubs=["std::thread::_M_start_thread/join, condition_variable::wait/notify_one, pthread mutex: vp/models/models_more.c", "sched_yield in stop(): blocks (path ends) while the loop thread is suspended"])]
