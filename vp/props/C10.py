from runner import CbmcUnit, Entry
from props.C09 import OPAQUE

OPS = ["operator[] write", "operator[] read/insert", "at()", "erase", "clear", "contains"]


def units(tier):
    q = tier == "quick"
    ns = [0, 1, 2] if q else [0, 1, 2, 3]
    SP = "ir__ZSt27__stable_partition_adaptiveIN9__gnu_cxx17__normal_iteratorIPSt4pairIiiESt6vectorIS3_SaIS3_EEEES4_NS0_5__ops10_Iter_predIZN8rkcommon10containers7FlatMapIiiE5eraseERKiEUlRKS3_E_EElET_SL_SL_T1_T2_T0_SN_"
    ents = [Entry("vp_main_fm_n%d_op%d" % (n, op), unwind=n + 4, timeout=900 if q else 3000, unwindset=({SP: 2 if n <= 1 else 3} if op == 3 else {}),
                  desc="FlatMap<int,int>: one %s with a symbolic key from an arbitrary valid %d-entry state (symbolic distinct keys/values) vs. the insertion-ordered reference map" % (OPS[op], n),
                  bounds="state size %d" % n) for n in ns for op in range(6) if not (op == 3 and n > (1 if q else 2))]
    return [CbmcUnit("flatmap", "harness/C10_flatmap.cpp", ents, defines=["STEPS=1"], heap_max=64, opaque=OPAQUE, elem_unwind=6,
                     assumptions=["one operation from every valid state with <= %d entries (inductive step; histories of any length within that size)" % max(ns), "int keys and values", "erase (std::stable_partition: recursion bound 2-3) only for states of <= 1 (quick) / 2 (thorough) entries: larger ones do not finish"]),
            CbmcUnit("params", "harness/C10_flatmap.cpp", [
                Entry("vp_main_params_get", unwind=6, timeout=1200, desc="ParameterizedObject: absent/default, set, wrong-type read (default, not queried), exact read (value, queried), reset of query status; symbolic values"),
                ] + ([] if q else [
                Entry("vp_main_params_retype", unwind=6, timeout=3000, desc="two names, type change under one name: one entry each, first-insertion order, old type reads default (no verdict within 1200 s in the quick tier)"),
                Entry("vp_main_params_remove", unwind=6, timeout=3000, desc="removal keeps the rest; removing an absent name is a no-op (no verdict within 1200 s in the quick tier)")]),
                defines=["STEPS=1"], heap_max=64, opaque=OPAQUE, object_bits=9,
                assumptions=["names 'a','b' (libstdc++ string model), int/float values", "three fixed operation scenarios with symbolic values (not all histories)"])]
