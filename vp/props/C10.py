from runner import PathUnit, PathEntry

LEVEL = "model_checking"
OPS = ["operator[] write", "operator[] read/insert", "at()", "erase", "clear", "contains"]


def units(tier):
    q = tier == "quick"
    ns = [0, 1, 2, 3, 4, 5]
    W = 600 if q else 3000
    PH = 3
    ents = [PathEntry("vp_main_fm_n%d_op%d" % (n, op), wall=W,
                      desc="FlatMap<int,int>: one %s with a symbolic key from an arbitrary valid %d-entry state (symbolic pairwise-distinct keys, symbolic values) vs. the insertion-ordered reference map: size, iteration order, at_index, lookup results" % (OPS[op], n),
                      bounds="state size %d" % n) for n in ns for op in range(6)]
    fm = PathUnit("flatmap", "harness/C10_flatmap.cpp", ents, defines=["STEPS=1", "VP_PATH"],
                  assumptions=["one operation from every valid state with <= %d entries (inductive step: covers histories of any length that stay within that size)" % max(ns), "int keys and values (all 2^32 values each)",
                               "std::vector / std::stable_partition are the real libstdc++ header code; allocation never fails (stable_partition's temporary buffer always obtained)"])
    pe = [PathEntry("vp_main_params_get", wall=W, desc="ParameterizedObject: absent/default, set, wrong-type read (default, not queried), exact read (value, queried), reset of query status; symbolic values"),
          PathEntry("vp_main_params_retype", wall=W, desc="two names, type change under one name: one entry each, first-insertion order, old type reads default, new type reads the value"),
          PathEntry("vp_main_params_remove", wall=W, desc="removal keeps the rest; removing an absent name is a no-op"),
          PathEntry("vp_main_params_hist", wall=W, max_paths=400000, desc="every history of %d actions (set int / set float / remove / get<int> / get<float> / hasParam / reset query status) over names a,b,c with symbolic values vs. a reference list: length, order, query flags, results after every step" % PH)]
    po = PathUnit("params", "harness/C10_flatmap.cpp", pe, defines=["STEPS=1", "VP_PATH", "PH=%d" % PH],
                  assumptions=["names 'a','b','c', int/float values; three fixed scenarios plus every history of %d actions, symbolic values" % PH, "std::string / shared_ptr / type_info comparisons are the real header code; type_info objects of built-in types synthesised (name = mangled name)"])
    if q:
        return [fm, po]
    po4 = PathUnit("params_h4", "harness/C10_flatmap.cpp", [PathEntry("vp_main_params_hist", wall=W, max_paths=400000, max_steps=400000000,
                   desc="every history of 4 actions (set int / set float / remove / get<int> / get<float> / hasParam / reset query status) over names a,b with symbolic values vs. a reference list")],
                   defines=["STEPS=1", "VP_PATH", "PH=4", "PNAMES=2"], assumptions=["names 'a','b'; every history of 4 actions, symbolic values"])
    return [fm, po, po4]
