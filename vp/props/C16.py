from runner import PathUnit, PathEntry

LEVEL = "model_checking"
# iostream / stringstream (error-message formatting, the 'still-open nodes' warning) live in libstdc++.so: opaque, results unused by the claims
XOPAQUE = [r"basic_stringstream", r"basic_ostream", r"^_ZNSo", r"^_ZSt4endl", r"^_ZStlsI", r"^_ZNSt8ios_base", r"^_ZNSt9basic_ios", r"^_ZNSt6locale", r"basic_stringbuf", r"basic_streambuf", r"^_ZSt16__ostream_insert"]


def units(tier):
    q = tier == "quick"
    n = 5 if q else 7
    W = 900 if q else 6000
    P = lambda name, d, nb=None: PathEntry(name, desc=d, wall=W, max_steps=(40000000 if q else 1500000000), max_paths=(400000 if q else 4000000), bounds=("%d symbolic bytes (every value incl. NUL)" % nb) if nb else "")
    tot = "returns a document or throws std::runtime_error; every cursor dereference inside the file's bytes (+ the NUL readXML appends); terminates"
    ents = [P("vp_main_parse_any", "parseXML on every byte string of length %d: %s" % (n, tot), n),
            P("vp_main_parse_prop", "'<a b=' + either quote + every %d-byte tail (quoted-string scanner): %s" % (n, tot), n),
            P("vp_main_parse_open", "'<a>' + every %d-byte tail (content / child / close-tag scanning): %s" % (n, tot), n),
            P("vp_main_parse_tag", "'<a ' + every %d-byte tail (property list): %s" % (n, tot), n),
            P("vp_main_parse_comment", "'<!--' + every %d-byte tail (comment scanner): %s" % (n, tot), n),
            P("vp_main_parse_header", "'<?xml' + every %d-byte tail (header): %s" % (n, tot), n),
            P("vp_main_parse_close", "'<a>x</' + every %d-byte tail (close tag): %s" % (n, tot), n),
            P("vp_main_faithful_layout", "generated documents: header (none / '<?xml?>' / with version), comments before and after, one node self-closing / empty / with content (1 or 2 words of any non-blank bytes), the same whitespace (none, ' ', newline+tab) at every allowed position: the tree read back has that name, property and trimmed content"),
            P("vp_main_faithful_props", "generated nodes: every legal name of 1-2 characters, 0-2 properties (duplicate names, both quote styles, whitespace around '=', value = any byte that does not end it, or an escaped quote): same name and properties (last duplicate wins), fallback for absent ones"),
            P("vp_main_faithful_tree", "generated documents: root with 0-2 children (self-closing / empty / content / grandchild with property), optional comments, whitespace between them: same children in the same order"),
            P("vp_main_reject", "six malformed documents (mismatched close tag, truncated tag, property without value, bad name, two contents): std::runtime_error")]
    return [PathUnit("xml", "harness/C16_xml.cpp", ents, defines=["NBYTES=%d" % n, "VP_PATH"], opaque=XOPAQUE,
                     assumptions=["parseXML is driven directly on a buffer holding the file's bytes and the terminating NUL; readXML's file framing (fopen/fseek/ftell/fread) is outside the claim",
                                  "byte strings of length <= %d behind each prefix; nesting depth therefore bounded by the length; longer inputs are outside the claim" % n,
                                  "std::map / std::vector / std::string are the real libstdc++ header code; red-black-tree maintenance (libstdc++.so) is vp/models/support.cpp; allocation never fails",
                                  "error-message text (stringstream) and the warning printed for still-open nodes are opaque"],
                     stubs=["isalpha/isdigit/isspace by their C-locale ASCII definition", "iostream/stringstream: opaque"])]
