from runner import CbmcUnit, Entry
from props.C09 import OPAQUE

XOPAQUE = OPAQUE + [r"_Rb_tree", r"^_ZNSt3mapI", r"^_ZNSt6vectorIN8rkcommon3xml4NodeE", r"^_ZSt4cout", r"^_ZSt4endl", r"^_ZNSolsE", r"^_ZNSt8_Rb_tree", r"^_ZNSt12_Vector_baseIN8rkcommon3xml4NodeE",
                    r"^_ZSt8_DestroyIPN8rkcommon3xml4NodeE", r"^_ZNSt12_Destroy_aux", r"^_ZN8rkcommon3xml4NodeC[12]E(RK|O)S1_", r"^_ZN8rkcommon3xml4NodeD[12]Ev", r"^_ZNSt20__uninitialized_copy", r"^_ZNKSt5ctype", r"^_ZSt16__throw_bad_castv"]


def units(tier):
    q = tier == "quick"
    n = 3 if q else 5
    uw = n + 8
    return [CbmcUnit("xml", "harness/C16_xml.cpp", [
        Entry("vp_main_parse_any", unwind=uw, timeout=1500 if q else 7000, desc="parseXML on every byte string of length %d (+NUL): returns or throws runtime_error; every cursor dereference inside the file's bytes; terminates within the bound" % n,
              bounds="exactly %d symbolic bytes, recursion/loops unwound %d" % (n, uw)),
        Entry("vp_main_parse_prop", unwind=uw + 6, timeout=1500 if q else 7000, desc="parseXML on '<a b=' + quote + every %d-byte tail: the quoted-string scanner stays inside the file's bytes" % n,
              bounds="%d symbolic tail bytes" % n)],
        defines=["NBYTES=%d" % n], heap_max=32, opaque=XOPAQUE, object_bits=9, mem_unwind=20, validate=False,
        assumptions=["std::map / vector<Node> / Node copy and destruction / iostream members are opaque (havoc): the cursor is moved only by XML.cpp's own code", "byte strings of length %d; deeper nesting, readXML's file framing (fopen/ftell/fread) and faithfulness of the returned tree are outside the claim" % n,
                     "allocation never fails"],
        stubs=["libstdc++ string model; isalpha/isdigit/isspace ASCII contracts"])]
