from props.tasking_common import unit, E

LEVEL = "model_checking"
TYPES = [("int", "int"), ("size_t", "size_t"), ("uchar", "unsigned char"), ("short", "short"), ("long", "long long"), ("uint", "unsigned"), ("slong", "long"), ("ull", "unsigned long long")]


def ents(q, types):
    out = [E("vp_main_pfor_" + t, "parallel_for<%s>(n) for n in -2..5 (unsigned: 0..5): body invoked exactly once for every index in [0,n), for nothing else (asserted inside the body), effects visible on return" % d, q) for t, d in TYPES if t in types]
    out += [E("vp_main_pfor_nested", "parallel_for(n) calling parallel_for(m) from its body, n,m in 0..2: every (i,j) exactly once", q),
            E("vp_main_blocks4", "parallel_in_blocks_of<4>(n), n in -1..10: blocks non-empty, aligned, <= 4 long, partition [0,n) exactly, ceil(n/4) of them", q),
            E("vp_main_blocks3", "parallel_in_blocks_of<3>(n), n in -1..10", q), E("vp_main_blocks1", "parallel_in_blocks_of<1>(n), n in -1..10", q),
            E("vp_main_foreach", "parallel_foreach over a vector of 0..3 elements: each element exactly once", q)]
    return out


def units(tier):
    q = tier == "quick"
    allt = [t for t, _ in TYPES]
    us = [unit("internal_t1", ents(q, allt), 1, 0, q), unit("internal_t2", ents(q, allt), 2, 0, q), unit("serial", ents(q, allt), 1, 0, q, internal=False),
          unit("internal_t2_p1", ents(q, ["int", "uchar"] if q else allt), 2, 1, q)]
    us.append(unit("internal_t2_p2_join", [E("vp_main_pfor_join", "parallel_for(n), n in 2..3, two threads, EVERY schedule with <= 2 preemptions: all invocations have happened (and are visible) when the call returns - the join", q)], 2, 2, q))
    full = lambda: [E("vp_main_pfor_nested_full", "nested parallel_for (outer 8/12, inner 3/6) with the per-thread pipe shrunk to 2 slots (hook RKCOMMON_VERIF_PIPESIZE_LOG2=1): the pipe-full fallback of SplitAndAddTask still runs every (i,j) exactly once", q)]
    us.append(unit("internal_t3_pipe2", full(), 3, 0, q, extra_defs=["RKCOMMON_VERIF_PIPESIZE_LOG2=1"], validate=False))
    us.append(unit("internal_t2_pipe2", full(), 2, 0, q, extra_defs=["RKCOMMON_VERIF_PIPESIZE_LOG2=1"], validate=False))
    if not q:
        us += [unit("internal_t2_pipe2_p1", full(), 2, 1, q, extra_defs=["RKCOMMON_VERIF_PIPESIZE_LOG2=1"], validate=False)]
        us += [unit("internal_t3", ents(q, allt), 3, 0, q), unit("internal_t2_p2", ents(q, ["int", "uchar"]), 2, 2, q),
               unit("internal_t2_p3_join", [E("vp_main_pfor_join", "the join under every schedule with <= 3 preemptions (2 threads, n in 2..3)", q)], 2, 3, q)]
    return us
