from runner import CbmcUnit, Entry, PathUnit, PathEntry

OPS = ["push_back", "resize(+2)", "reserve(8)", "shrink_to_fit", "swap", "assign(3,x)"]


def units(tier):
    q = tier == "quick"
    ents = [Entry("vp_main_alloc_" + n, unwind=6, timeout=600, desc="aligned_allocator<%s,64>::allocate(n) for every 64-bit n: n=0 -> null, n>max_size -> length_error without a call, "
                  "otherwise exactly n*sizeof(T) bytes at alignment 64, null -> bad_alloc, result aligned and usable for the full extent; deallocate" % n,
                  bounds="allocations up to 64 bytes succeed (larger ones fail in the stub), n full 64-bit") for n in ["u8", "int", "s12", "s64"]]
    ents.append(Entry("vp_main_alignedmalloc", unwind=6, timeout=600, desc="alignedMalloc(size, align) for every power-of-two alignment 1..4096 and every size: null or aligned and usable; "
                      "posix_memalign's precondition always met; alignedFree", bounds="usable extent checked up to 64 bytes"))
    for n in ([0, 1, 2] if q else [0, 1, 2, 3]):
        for op in range(6):
            ents.append(Entry("vp_main_vec_n%d_op%d" % (n, op), unwind=10, timeout=900, desc="AlignedVector<int> with %d elements, then %s: data() aligned, elements preserved" % (n, OPS[op])))
    tbb = PathUnit("aligned_tbb", "harness/C14_tbb.cpp", [
        PathEntry("vp_main_tbb_alignedmalloc", wall=600, desc="TBB configuration: alignedMalloc(size, align) for every power-of-two alignment 1..4096 x 14 sizes (0..12288, below/above the allocator's 1024-byte class, multiples and non-multiples of the alignment), three live blocks: null or aligned, usable, released with alignedFree"),
        PathEntry("vp_main_tbb_vector", wall=600, desc="TBB configuration: AlignedVector<int> push_back x 6, resize(300), shrink: data() 64-byte aligned, elements preserved")],
        defines=["RKCOMMON_TASKING_TBB", "VP_PATH"], native_defines=["VP_NATIVE_BUILD"], native_libs=["-ltbbmalloc"],
        assumptions=["tbbmalloc (closed library) replaced by its documented contract: scalable_aligned_malloc returns null for size 0 / non-power-of-two alignment, else a block aligned to exactly the requested alignment; scalable_malloc promises no more than 16-byte alignment (adversarially chosen); scalable_*free release a block once"],
        stubs=["scalable_aligned_malloc / scalable_malloc / scalable_aligned_free / scalable_free: contract models in vp/llpath.py"])
    return [tbb, CbmcUnit("aligned", "harness/C14_aligned.cpp", ents, heap_max=64, native_defines=["VP_NATIVE_BUILD"], validate=False, elem_unwind=10, mem_unwind=20,
                     assumptions=["non-TBB back end (_mm_malloc over posix_memalign); posix_memalign by contract: null/ENOMEM or a fresh block of exactly the requested size; "
                                  "its precondition is an obligation", "TBB scalable_aligned_malloc is a closed library: contract only, not checked",
                                  "cbmc addresses: alignment is decided on the offset within the returned block (the stub returns offset 0)"],
                     stubs=["posix_memalign contract stub (vp/models/models_more.c)"])]
