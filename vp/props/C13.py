from props.tasking_common import unit, E

LEVEL = "model_checking"


def units(tier):
    q = tier == "quick"
    init = lambda: E("vp_main_init", "numTaskingThreads() is 0 before initialisation; after initTaskingSystem(n), n in {-1,0,1,2,3}: n (n > 0; exactly n-1 workers created) or a positive hardware default; re-initialisation with m in 1..3 replaces it (m-1 new workers, the old ones stopped)", q)
    act = lambda: E("vp_main_active", "parallel_for(n), n in 0..3, with a body that counts simultaneously active invocations: the maximum never exceeds the configured thread count", q)
    us = [unit("internal_init", [init()], 1, 0, q, validate=False), unit("serial", [init(), act()], 1, 0, q, internal=False),
          unit("internal_t1", [act()], 1, 0, q), unit("internal_t2", [act()], 2, 0, q), unit("internal_t2_p1", [act()], 2, 1, q)]
    if not q:
        us += [unit("internal_t3", [act()], 3, 0, q), unit("internal_t2_p2", [act()], 2, 2, q), unit("internal_t3_p1", [act()], 3, 1, q)]
    return us
