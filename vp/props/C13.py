from props.tasking_common import unit, E

LEVEL = "model_checking"


def units(tier):
    q = tier == "quick"
    init = lambda: E("vp_main_init", "numTaskingThreads() is 0 before initialisation; after initTaskingSystem(n), n in {-1,0,1,2,3}: n (n > 0; exactly n-1 workers created) or a positive hardware default; re-initialisation with m in 1..3 replaces it (m-1 new workers, the old ones stopped)", q)
    act = lambda: E("vp_main_active", "parallel_for(n), n in 0..3, with a body that counts simultaneously active invocations: the maximum never exceeds the configured thread count", q)
    us = [unit("internal_init", [init()], 1, 0, q, validate=False), unit("serial", [init(), act()], 1, 0, q, internal=False),
          unit("internal_t1", [act()], 1, 0, q), unit("internal_t2", [act()], 2, 0, q), unit("internal_t2_p1", [act()], 2, 1, q)]
    from runner import PathUnit, PathEntry
    hist = 3 if q else 5
    for nm, dfn, libs, contract in [("tbb_init", "RKCOMMON_TASKING_TBB", ["-ltbb"], "tbb::detail::r1::create / destroy / global_control_active_value replaced by the documented contract of global_control (active value = minimum over the live controls of the parameter, library default - an arbitrary positive number - when none is alive)"),
                                    ("omp_init", "RKCOMMON_TASKING_OMP", ["-fopenmp"], "omp_set_num_threads / omp_get_max_threads replaced by their specification (nthreads-var of the calling task, initially an arbitrary positive default)")]:
        us.append(PathUnit(nm, "harness/C13_backend_init.cpp", [PathEntry("vp_main_backend_init", wall=600 if q else 3000,
                  desc="real tasking_system_init.cpp in the %s configuration: numTaskingThreads() is 0 before initialisation, n after initTaskingSystem(n) for every n in 1..1000, positive for n <= 0, and m after each of %d re-initialisations with arbitrary m" % (dfn, hist))],
                  defines=[dfn, "VP_PATH", "HIST=%d" % hist], native_defines=["VP_NATIVE_BUILD"], native_libs=libs,
                  assumptions=[contract, "only the reporting half of the property in this configuration: the number of threads the closed library actually uses is outside"],
                  stubs=[contract]))
    if not q:
        us += [unit("internal_t3", [act()], 3, 0, q), unit("internal_t2_p2", [act()], 2, 2, q), unit("internal_t3_p1", [act()], 3, 1, q)]
    return us
