from runner import CbmcUnit, Entry

A = ["internal (enkiTS) back end compiled from source with -DRKCOMMON_TASKING_INTERNAL and the serial-debug back end; TBB global_control and OpenMP are closed libraries: not checked",
     "worker threads: pthread_create is counted; workers are stalled (never scheduled) except to observe the stop flag when the scheduler is replaced"]


def units(tier):
    return [CbmcUnit("init_internal", "harness/C13_tasking.cpp", [Entry("vp_main_init", unwind=10, timeout=900,
                     desc="numTaskingThreads() before init, after initTaskingSystem(n) for n in {-1,0,1,2,3} (n-1 workers created), and after re-initialisation with m in 1..3")],
                     defines=["RKCOMMON_TASKING_INTERNAL"], heap_max=256, validate=False, native_defines=["VP_NATIVE_BUILD"], object_bits=9, assumptions=A, mem_unwind=40, elem_unwind=40),
            CbmcUnit("init_serial", "harness/C13_tasking.cpp", [Entry("vp_main_init", unwind=10, timeout=900, desc="serial-debug back end: 0 before init, 1 after")],
                     defines=[], heap_max=256, validate=False, native_defines=["VP_NATIVE_BUILD"], assumptions=A)]
