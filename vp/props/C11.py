from runner import CbmcUnit, Entry, PathUnit, PathEntry


def units(tier):
    q = tier == "quick"
    nmax, steps = (2, 2) if q else (4, 3)
    uw = nmax + 3
    E = lambda n, d, **kw: Entry(n, unwind=uw, desc=d, bounds="sizes 0..%d, history length %d, unwind %d" % (nmax, steps, uw),
                                 timeout=300 if q else 2400, **kw)
    entries = [
        E("vp_main_at_int", "AbstractArray<int>::at/size/data/begin/end/bool from arbitrary (ptr,n), full 64-bit index"),
        E("vp_main_at_u8", "same, uint8_t"),
        E("vp_main_at_s12", "same, 12-byte struct"),
        E("vp_main_view_int", "ArrayView<int> histories over reset/assign/copy: aliases source exactly"),
        E("vp_main_owned_int", "OwnedArray<int> histories: reset, reset(p,n), resize incl. reallocating growth, assign from std::array"),
        E("vp_main_owned_copy", "OwnedArray copy-construct / copy-assign then destroy, resize or reset the original"),
        E("vp_main_owned_shrink", "OwnedArray shrink, then copy / grow again: sizes and contents follow the last operation"),
        E("vp_main_fixed", "FixedArray: all ctors, assignment, copies share storage and keep it alive"),
        E("vp_main_fixedview", "FixedArrayView window; copy of view keeps data alive"),
        E("vp_main_fixedview_drop", "FixedArrayView outlives the FixedArray handle it was made from"),
        Entry("vp_main_dataview_u8", unwind=26, desc="DataView<uint8_t>[i] = base + i*stride, 24-byte buffer, all strides/indices that fit"),
        Entry("vp_main_dataview_int", unwind=26, desc="DataView<int>"),
        Entry("vp_main_dataview_s12", unwind=26, desc="DataView<12-byte struct>"),
    ]
    if not q:
        entries += [E("vp_main_view_s12", "ArrayView<struct> histories"),
                    E("vp_main_owned_u8", "OwnedArray<uint8_t> histories")]
        # OwnedArray<12-byte struct> histories at these bounds give no verdict within 1500 s (and the witness twin is cut off by the unwinding bound): not claimed
    return [CbmcUnit("arrays", "harness/C11_arrays.cpp", entries, defines=["NMAX=%d" % nmax, "STEPS=%d" % steps],
                     heap_max=96,
                     assumptions=["allocation never fails (--no-malloc-may-fail)", "element types: uint8_t, int, 12-byte POD struct",
                                  "sizes <= %d, history length <= %d" % (nmax, steps)],
                     stubs=["operator new/delete = malloc/free (cbmc allocation model, ghost size table)",
                            "std::runtime_error ctor/dtor: type tag only"]),
            PathUnit("arrays_path", "harness/C11_arrays.cpp", [
                PathEntry("vp_main_fixed_vec_" + t, wall=600, desc="FixedArray<%s> constructed / assigned from std::vector (0..%d elements) and std::array, onto empty and non-empty targets: size, independent copy of every element, at(size()) throws, a copy keeps the contents alive" % (d, nmax))
                for t, d in (("int", "int"), ("s12", "12-byte struct"), ("u8", "uint8_t"))],
                defines=["NMAX=%d" % nmax, "STEPS=%d" % steps, "VP_PATH"], assumptions=["path engine (vp/llpath.py); symbolic element values, shapes enumerated"])]
