from runner import SmtUnit, SmtEntry

LEVEL = "other"
EXPLANATION = ("SMT verdicts over all inputs of the scalar kernels in rkmath.h / vec.h / random.h (LLVM IR executed symbolically): accuracy of rcp/rsqrt "
               "under the standard rounding-error model with the Intel SDM contract for rcpss/rsqrtss (mode ERR), rcp_safe finiteness/sign over all finite "
               "reals, bit-precise IEEE/bit-vector semantics for clamp, sign, packing and divRoundUp, exact reals for the distributions' range.")
SDM = "0.0003662109375"   # 1.5 * 2^-12


def ents(q, simd):
    t = 30000 if q else 120000
    E = lambda n, mode, d, **kw: SmtEntry(n, mode=mode, timeout_ms=t, desc=d, **kw)
    e = [E("vp_main_rcp_acc", "ERR", "rcp(x): |rcp(x)*x-1| <= 2^-20 for 2^-126<=|x|<2^126", approx_err=SDM),
         E("vp_main_rsqrt_acc", "ERR", "rsqrt(x): |rsqrt(x)*sqrt(x)-1| <= 2^-20 for x in [2^-124, 2^126*(1-2^-8)] (outside: denormal intermediates, rounding model not applicable)", approx_err=SDM),
         E("vp_main_rcp_safe", "ERR", "rcp_safe finite and never of the opposite sign for every finite x (underflow of 1/x for huge |x| is harmless here: only overflow is an obligation)", approx_err=SDM, underflow_check=False)]
    if simd:
        e += [E("vp_main_clamp_f", "FP", "clamp<float>"), E("vp_main_clamp_d", "FP", "clamp<double>"), E("vp_main_clamp_i", "FP", "clamp<int>, clamp<unsigned>"),
              E("vp_main_defs", "FP", "sign, madd, lerp, deg2rad = definitions"),
              E("vp_main_cvt", "FP", "cvt_uint32: <=255, saturating, monotone"), E("vp_main_cvt4", "FP", "cvt_uint32(vec4f): each channel in its own byte"),
              E("vp_main_srgb", "FP", "linear_to_srgb monotone/saturating (powf contract), linear_to_srgba per channel, alpha not gamma-mapped"),
              E("vp_main_dist_biased", "REAL", "pcg32_biased_float_distribution in [lower,upper]; same seed => same values", abstract_words=True),
              E("vp_main_dist_uniform", "REAL", "uniform_real_distribution<float|double> in [lower,upper]; makeRandomColor in [0,1]", abstract_words=True)]
        for n, im in [("i", "INT"), ("u", "INT"), ("l", "INT"), ("ul", "INT"), ("s", "INT"), ("us", "INT"), ("c", "BV"), ("uc", "BV")]:
            if q and n in ("l", "c", "us"):
                continue
            e.append(E("vp_main_divroundup_" + n, "FP", "divRoundUp<%s> = least q with q*b>=a" % n, int_mode=im))
    return e


def units(tier):
    q = tier == "quick"
    A = ["rcpss/rsqrtss: relative error <= 1.5*2^-12 (Intel SDM); every float op exact*(1+d), |d|<=2^-24; intermediates in the normal range",
         "zeros/denormals/-0.0 read numerically in rcp_safe (reals near 0)", "powf: contract only (pow(0)=0, pow(1)=1, monotone); roundf = round-half-away",
         "distributions: exact reals, machine words abstracted to their range (integrality dropped)", "NaN excluded"]
    return [SmtUnit("scalar_simd", "harness/C07_scalar.cpp", ents(q, True), assumptions=A),
            SmtUnit("scalar_nosimd", "harness/C07_scalar.cpp", ents(q, False), defines=["RKCOMMON_NO_SIMD"],
                    assumptions=["RKCOMMON_NO_SIMD build: rcp = 1/x, rsqrt = 1/sqrt(x) under the same rounding-error model"])]
