from runner import CbmcUnit, Entry


def units(tier):
    q = tier == "quick"
    shapes = ["1x1", "1x2", "2x1", "2x2"] + ([] if q else ["1x3", "3x1", "2x3", "3x2", "3x3"])
    ents = []
    for sh in shapes:
        w, h = map(int, sh.split("x"))
        uw = max(4 * 4 * w + 2, 4 * w * h + 2, 20)
        for fmt, d in [("ppm", "writePPM: header, 3*w*h bytes, rows bottom-up, r,g,b bytes"), ("pgm", "writePGM: header, w*h bytes, rows bottom-up"),
                       ("pfm_f", "writePFM<float>: header Pf, floats as given"), ("pfm_3f", "writePFM<vec3f>"), ("pfm_3fa", "writePFM<vec3fa> (drops padding)"),
                       ("pfm_4f", "writePFM<vec4f>")]:
            ents.append(Entry("vp_main_%s_%s" % (fmt, sh), unwind=uw, timeout=300 if q else 1500, desc=d + "; reads only the w*h pixels given",
                              bounds="image %s, all pixel values, unwind %d" % (sh, uw)))
    for n in ["ppm_seq_21_12", "ppm_seq_11_22", "pgm_seq_21_12", "pgm_seq_22_11", "pfm_f_seq_21_12", "pfm_3f_seq_21_11", "pfm_3fa_seq_21_12", "pfm_4f_seq_21_11"]:
        ents.append(Entry("vp_main_" + n, unwind=40, timeout=300 if q else 1500, desc="two images in a row by the same thread in the same format (sizes WH then WH as named): the second file depends only on its own call's arguments",
                          bounds="two calls, sizes as named, all pixel values"))
    ents.append(Entry("vp_main_open_fails", unwind=4, desc="fopen failure throws runtime_error"))
    return [CbmcUnit("image", "harness/C20_image.cpp", ents, heap_max=160, elem_unwind=40, mem_unwind=150, native_defines=["VP_NATIVE_BUILD"],
                     assumptions=["fopen/fprintf/fwrite/fclose replaced by capturing stubs (header arguments and payload bytes)", "image sizes: every (w,h) in 1..%d" % (2 if q else 3),
                                  "tracing::saveLog / event recording not covered: built on std::ofstream, unordered_map, chrono (libstdc++ iostream internals cannot be encoded within reach)"],
                     stubs=["stdio capture model (vp/models/models_more.c)", "std::string out-of-line members: vp/models/models_more.c"])]
