"""LLVM IR -> C translator (ll2c) for cbmc's C front end.  See DESIGN.md 2.3.

One C function per IR function (goto CFG, every SSA value a local), IR struct
types as C structs with the same layout, exceptions lowered to a pending-exception
record, external functions routed to the model library (models.c) through
pointer-erased prototypes.
"""
import re
import sys
import os
from llir import (parse_file, Type, Val, IntT, PtrT, VOID, I1, I8, I32, I64, IRError)

STD_EXC_PARENT = {
    "St9exception": None,
    "St13runtime_error": "St9exception",
    "St11logic_error": "St9exception",
    "St12out_of_range": "St11logic_error",
    "St12length_error": "St11logic_error",
    "St16invalid_argument": "St11logic_error",
    "St12domain_error": "St11logic_error",
    "St11range_error": "St13runtime_error",
    "St14overflow_error": "St13runtime_error",
    "St15underflow_error": "St13runtime_error",
    "St9bad_alloc": "St9exception",
    "St20bad_array_new_length": "St9bad_alloc",
    "St8bad_cast": "St9exception",
    "St10bad_typeid": "St9exception",
    "St17bad_function_call": "St9exception",
    "St12system_error": "St13runtime_error",
    "St12future_error": "St11logic_error",
    "NSt8ios_base7failureB5cxx11E": "St12system_error",
    "NSt6thread6_StateE": None,
}


ALLOC_FUNCS = {"_Znwm", "_Znam", "malloc", "calloc", "_ZnwmRKSt9nothrow_t", "_ZnamRKSt9nothrow_t"}
INLINE_HANDLED = {"vp_assert", "vp_assume", "vp_reach", "vp_point", "__cxa_throw", "vp_spawn", "__gxx_personality_v0", "vp_run_thread"}


def san(name):
    return re.sub(r"[^A-Za-z0-9_]", "_", name)


def block_order(f):
    """Reverse post-order in which every natural loop is contiguous and loop exits follow the loop
    (cbmc re-executes code that sits textually inside a backward goto once per iteration)."""
    blocks = f.blocks
    idx = {b.name: i for i, b in enumerate(blocks)}
    n = len(blocks)
    succs = [[idx[s.name] for s in b.succs] for b in blocks]
    preds = [[] for _ in range(n)]
    for i, ss in enumerate(succs):
        for s_ in ss:
            preds[s_].append(i)
    # reachable + plain RPO for dominators
    seen = [False] * n
    post = []
    stack = [(0, 0)]
    seen[0] = True
    while stack:
        v, k = stack.pop()
        if k < len(succs[v]):
            stack.append((v, k + 1))
            w = succs[v][k]
            if not seen[w]:
                seen[w] = True
                stack.append((w, 0))
        else:
            post.append(v)
    rpo = post[::-1]
    rnum = {v: i for i, v in enumerate(rpo)}
    idom = {0: 0}
    changed = True
    while changed:
        changed = False
        for v in rpo[1:]:
            ps = [p for p in preds[v] if p in idom]
            if not ps:
                continue
            new = ps[0]
            for p in ps[1:]:
                a, b = p, new
                while a != b:
                    while rnum[a] > rnum[b]:
                        a = idom[a]
                    while rnum[b] > rnum[a]:
                        b = idom[b]
                new = a
            if idom.get(v) != new:
                idom[v] = new
                changed = True

    def dominates(a, b):
        while True:
            if a == b:
                return True
            if b == 0 or b not in idom:
                return False
            b = idom[b]

    depth = [0] * n
    for t in rpo:
        for h in succs[t]:
            if h in rnum and dominates(h, t):
                body = {h}
                work = [t]
                while work:
                    x = work.pop()
                    if x in body:
                        continue
                    body.add(x)
                    work.extend(p for p in preds[x] if p in rnum)
                for x in body:
                    depth[x] += 1
    # loop-aware DFS: visit successors leaving more loops first
    seen = [False] * n
    post = []
    seen[0] = True
    stack = [(0, sorted(succs[0], key=lambda w: depth[w]), 0)]
    while stack:
        v, ss, k = stack.pop()
        if k < len(ss):
            stack.append((v, ss, k + 1))
            w = ss[k]
            if not seen[w]:
                seen[w] = True
                stack.append((w, sorted(succs[w], key=lambda x: depth[x]), 0))
        else:
            post.append(v)
    order = [blocks[v] for v in post[::-1]]
    # unreachable blocks are dropped
    return order


class CGen:
    def __init__(self, mod, opaque=(), shared_race=False, entry_prefix="vp_main"):
        self.m = mod
        self.out = []
        self.tnames = {}     # type key -> C type name (for aggregates / func ptrs)
        self.tdefs = []      # (name, Type) in creation order
        self.fptypes = {}
        self.strlits = {}
        self.opaque = [re.compile(x) for x in opaque]
        self.tid = {}        # typeinfo suffix -> id
        self.tparent = {}
        self.used_ext = set()
        self.race = shared_race
        self.gnames = {}
        self.warnings = []
        self.copy_helpers = {}
        self.zero_helpers = {}
        self.new_helpers = {}
        for i, k in enumerate(STD_EXC_PARENT):
            self.tid[k] = i + 1
        self._collect_typeinfo()
        self.retype = {}
        self._collect_retype()

    # ------------------------------------------------------------------ types
    def ctype(self, t):
        k = t.kind
        if k == "void":
            return "void"
        if k == "int":
            b = t.bits
            if b <= 8:
                return "u8"
            if b <= 16:
                return "u16"
            if b <= 32:
                return "u32"
            if b <= 64:
                return "u64"
            if b <= 128:
                return "u128"
            raise IRError("int width %d" % b)
        if k == "float":
            return "float"
        if k == "double":
            return "double"
        if k == "x86_fp80":
            return "long double"
        if k == "half":
            return "u16"
        if k == "ptr":
            e = t.elem
            if e.kind == "func":
                return self.fptype(e)
            if e.kind == "void":
                return "u8*"
            return self.ctype(e) + "*"
        if k == "named":
            return "struct " + self.sname(t)
        if k in ("struct", "array", "vector"):
            return "struct " + self.sname(t)
        if k == "func":
            # bare function type only appears behind a pointer
            return self.fptype(t)
        if k in ("metadata", "token", "label"):
            return "u8"
        raise IRError("ctype %s" % t)

    def sname(self, t):
        key = t.key()
        n = self.tnames.get(key)
        if n is None:
            if t.kind == "named":
                n = "S_" + san(t.name)
            elif t.kind == "struct":
                n = "L%d" % len(self.tnames)
            elif t.kind == "array":
                n = "A%d" % len(self.tnames)
            else:
                n = "V%d" % len(self.tnames)
            # uniquify
            base = n
            c = 0
            while n in self.tnames.values():
                c += 1
                n = "%s_%d" % (base, c)
            self.tnames[key] = n
            self.tdefs.append((n, t))
            # make sure components are registered
            rt = t
            if t.kind == "named":
                rt = self.m.types.get(t.name)
                if t.name in self.retype:
                    self.ctype(self.retype[t.name])
            if rt is not None:
                if rt.kind == "struct":
                    for f in rt.fields:
                        self.ctype(f)
                elif rt.kind in ("array", "vector"):
                    self.ctype(rt.elem)
        return n

    def fptype(self, ft):
        key = ft.key()
        n = self.fptypes.get(key)
        if n is None:
            n = "FP%d" % len(self.fptypes)
            self.fptypes[key] = n
            ps = [self.ctype(p) for p in ft.params]
            self.ctype(ft.ret)
            self.fpdefs = getattr(self, "fpdefs", [])
            self.fpdefs.append((n, ft))
        return n

    def emit_types(self):
        o = []
        # iterate until closure (ctype may register more)
        done = 0
        while True:
            n0 = (len(self.tdefs), len(getattr(self, "fpdefs", [])))
            for (n, t) in list(self.tdefs):
                rt = self.m.types.get(t.name) if t.kind == "named" else t
                if rt is None:
                    continue
                if rt.kind == "struct":
                    for f in rt.fields:
                        self.ctype(f)
                else:
                    self.ctype(rt.elem)
            for (n, ft) in list(getattr(self, "fpdefs", [])):
                self.ctype(ft.ret)
                for p in ft.params:
                    self.ctype(p)
            if n0 == (len(self.tdefs), len(getattr(self, "fpdefs", []))):
                break
        for (n, t) in self.tdefs:
            o.append("struct %s;" % n)
        for (n, ft) in getattr(self, "fpdefs", []):
            ps = ", ".join(self.ctype(p) for p in ft.params)
            if ft.vararg:
                ps = ps + ", ..." if ps else ""
            elif not ps:
                ps = "void"
            o.append("typedef %s (*%s)(%s);" % (self.ctype(ft.ret), n, ps))
        # definitions in dependency order
        emitted = set()
        name2t = {n: t for (n, t) in self.tdefs}

        def deps(t):
            if t.kind == "named" and t.name in self.retype:
                return [self.retype[t.name]]
            rt = self.m.types.get(t.name) if t.kind == "named" else t
            if rt is None:
                return []
            if rt.kind == "struct":
                return [f for f in rt.fields if f.kind in ("named", "struct", "array", "vector")]
            return [rt.elem] if rt.elem.kind in ("named", "struct", "array", "vector") else []

        def emit(n, t):
            if n in emitted:
                return
            emitted.add(n)
            for d in deps(t):
                emit(self.sname(d), d)
            rt = self.m.types.get(t.name) if t.kind == "named" else t
            if t.kind == "named" and t.name in self.retype:
                tt = self.retype[t.name]
                emit(self.sname(tt), tt)
                o.append("struct %s { %s f0; }; /* in-place storage retyped */" % (n, self.ctype(tt)))
                o.append("_Static_assert(sizeof(struct %s) == %d, \"layout %s\");" % (n, self.m.sizeof(t), n))
                return
            if rt is None:
                o.append("struct %s { u8 opaque_; };" % n)
                return
            if rt.kind == "struct":
                fs = []
                for i, f in enumerate(rt.fields):
                    fs.append("%s f%d;" % (self.ctype(f), i))
                if not fs:
                    fs = []
                attr = " __attribute__((packed))" if rt.packed else ""
                if not fs:
                    o.append("struct %s { };" % n)
                else:
                    o.append("struct %s { %s }%s;" % (n, " ".join(fs), attr))
                try:
                    sz = self.m.sizeof(rt)
                    o.append("_Static_assert(sizeof(struct %s) == %d, \"layout %s\");" % (n, sz, n))
                except IRError:
                    pass
            elif rt.kind == "array":
                o.append("struct %s { %s a[%d]; };" % (n, self.ctype(rt.elem), rt.n))
            else:
                al = self.m.alignof(rt)
                o.append("struct %s { %s a[%d]; } __attribute__((aligned(%d)));" % (n, self.ctype(rt.elem), rt.n, al))

        for (n, t) in list(self.tdefs):
            emit(n, t)
        return o

    # ------------------------------------------------------------- in-place storage retyping
    def _byte_storage_size(self, t, depth=0):
        """N if t is (a single-field nest of structs around) [N x i8], else None"""
        if depth > 4:
            return None
        if t.kind == "named":
            rt = self.m.types.get(t.name)
            return self._byte_storage_size(rt, depth + 1) if rt is not None else None
        if t.kind == "struct" and len(t.fields) == 1:
            return self._byte_storage_size(t.fields[0], depth + 1)
        if t.kind == "array" and t.elem.kind == "int" and t.elem.bits == 8:
            return t.n
        return None

    def _collect_retype(self):
        """libstdc++ make_shared keeps the payload T in a byte array (__aligned_buffer).  Pointers written into a
        byte array are lost to cbmc's constant propagation (every later virtual call fans out), so the buffer type
        is emitted as 'struct { T f0; }' when T can be identified: from a bitcast of the buffer to T*, or from the
        C++ name of the enclosing _Sp_counted_ptr_inplace<T,...>::_Impl.  Layout (size, offsets) is unchanged."""
        m = self.m
        cand = {}
        for f in m.funcs.values():
            for ins in f.instrs():
                if ins.op == "bitcast" and ins.ops[0].ty.kind == "ptr" and ins.ty.kind == "ptr":
                    st, dt = ins.ops[0].ty.elem, ins.ty.elem
                    if st.kind == "named" and dt.kind == "named" and not m.is_opaque(dt) and "__aligned_buffer" in st.name:
                        n = self._byte_storage_size(st)
                        if n is not None and m.resolve(dt).kind == "struct":
                            try:
                                if m.sizeof(dt) == n:
                                    cand.setdefault(st.name, set()).add(dt.name)
                            except IRError:
                                pass
        for name, t in m.types.items():
            mo = re.match(r"class\.std::_Sp_counted_ptr_inplace<(.*)>::_Impl$", name)
            if not mo or t is None or len(t.fields) != 1 or t.fields[0].kind != "named":
                continue
            buf = t.fields[0].name
            if buf in cand:
                continue
            n = self._byte_storage_size(t.fields[0])
            if n is None:
                continue
            # first template argument
            args = mo.group(1)
            depth = 0
            first = ""
            for ch in args:
                if ch == "<":
                    depth += 1
                elif ch == ">":
                    depth -= 1
                elif ch == "," and depth == 0:
                    break
                first += ch
            base = re.sub(r"<.*", "", first).strip()
            for tn, tt in m.types.items():
                if tt is None or tt.kind != "struct":
                    continue
                if re.match(r"(struct|class)\." + re.escape(base) + r"(\.\d+)?$", tn):
                    try:
                        if m.sizeof(tt) == n:
                            cand.setdefault(buf, set()).add(tn)
                    except IRError:
                        pass
        for buf, ts in cand.items():
            self.retype[buf] = Type("named", name=sorted(ts)[0])

    # ------------------------------------------------------------- typeinfo
    def _collect_typeinfo(self):
        for g in self.m.globals.values():
            if g.name.startswith("_ZTI"):
                k = g.name[4:]
                if k not in self.tid:
                    self.tid[k] = len(self.tid) + 1
        for g in self.m.globals.values():
            if g.name.startswith("_ZTI") and g.init is not None and g.init.kind == "struct":
                k = g.name[4:]
                ops = g.init.ops
                par = None
                if len(ops) >= 3:
                    # __si_class_type_info {vptr,name,base}; __vmi: {vptr,name,flags,count,base0,off0,...}
                    cand = ops[2] if len(ops) == 3 else (ops[4] if len(ops) > 4 else None)
                    if cand is not None:
                        b = self._strip_global(cand)
                        if b and b.startswith("_ZTI"):
                            par = b[4:]
                            if par not in self.tid:
                                self.tid[par] = len(self.tid) + 1
                self.tparent[k] = par
        for k, p in STD_EXC_PARENT.items():
            self.tparent.setdefault(k, p)

    def _strip_global(self, v):
        while v.kind == "cexpr" and v.v in ("bitcast", "getelementptr"):
            v = v.ops[0]
        if v.kind == "global":
            return v.v
        return None

    # ------------------------------------------------------------- names
    def gname(self, name):
        n = self.gnames.get(name)
        if n is None:
            n = "ir_" + san(name)
            if n in self.gnames.values():
                n = n + "_%d" % len(self.gnames)
            self.gnames[name] = n
        return n

    # ------------------------------------------------------------- constants
    def zero(self, t):
        return "{0}"

    def const_init(self, v, t=None):
        """C initializer (brace form allowed) for constant v"""
        t = t or v.ty
        k = v.kind
        rt = self.m.resolve(t) if t.kind == "named" and not self.m.is_opaque(t) else t
        if k == "zero" or k == "undef":
            if rt.kind in ("struct", "array", "vector", "named"):
                return "{0}"
            return "0"
        if k == "struct":
            if not v.ops:
                return "{0}"
            return "{" + ", ".join(self.const_init(o) for o in v.ops) + "}"
        if k in ("array", "vector"):
            return "{{" + ", ".join(self.const_init(o) for o in v.ops) + "}}"
        if k == "cstr":
            return "{{" + ", ".join(str(b) for b in v.v) + "}}"
        return self.const_expr(v)

    def const_expr(self, v):
        k = v.kind
        t = v.ty
        if k == "int":
            bits = t.bits
            val = v.v & ((1 << bits) - 1)
            if bits <= 32:
                return "%dU" % val
            if bits <= 64:
                return "%dULL" % val
            hi, lo = val >> 64, val & ((1 << 64) - 1)
            return "(((u128)%dULL << 64) | %dULL)" % (hi, lo)
        if k == "fp":
            d = v.v
            if d != d:
                return "(0.0/0.0)" if t.kind == "double" else "(0.0f/0.0f)"
            if d in (float("inf"), float("-inf")):
                s = "(1.0/0.0)" if t.kind == "double" else "(1.0f/0.0f)"
                return ("-" + s) if d < 0 else s
            if t.kind == "float":
                return "%sf" % float.hex(d)
            if t.kind == "double":
                return float.hex(d)
            return "%sL" % float.hex(d)
        if k == "null":
            return "((%s)0)" % self.ctype(t)
        if k == "undef" or k == "zero":
            if t.kind in ("int",) or t.is_fp:
                return "0"
            if t.kind == "ptr":
                return "((%s)0)" % self.ctype(t)
            raise IRError("aggregate undef in expression")
        if k == "global":
            name = v.v
            if name in self.m.aliases:
                return "((%s)%s)" % (self.ctype(t), self.const_expr(self.m.aliases[name]))
            if name in self.m.funcs:
                self.note_func_ref(name)
                return "((%s)&%s)" % (self.ctype(t), self.gname(name))
            return "((%s)&%s)" % (self.ctype(t), self.gname(name))
        if k == "cexpr":
            op = v.v
            ops = v.ops
            if op == "bitcast" or op == "addrspacecast":
                if ops[0].ty.kind == "ptr" and t.kind == "ptr":
                    return "((%s)%s)" % (self.ctype(t), self.const_expr(ops[0]))
                raise IRError("const bitcast non-pointer")
            if op == "getelementptr":
                if ops[0].kind == "global" and ops[0].v.startswith("_ZTVN10__cxxabiv1"):
                    return "((%s)0)" % self.ctype(t)   # vptr of type_info objects: identity only
                return self.gep_expr(v.extra["srcty"], self.const_expr(ops[0]), ops[1:], self.const_expr, t)
            if op == "ptrtoint":
                return "((%s)%s)" % (self.ctype(t), self.const_expr(ops[0]))
            if op == "inttoptr":
                return "((%s)%s)" % (self.ctype(t), self.const_expr(ops[0]))
            if op in ("add", "sub", "mul", "and", "or", "xor"):
                c = {"add": "+", "sub": "-", "mul": "*", "and": "&", "or": "|", "xor": "^"}[op]
                return "((%s)(%s %s %s))" % (self.ctype(t), self.const_expr(ops[0]), c, self.const_expr(ops[1]))
            if op in ("trunc", "zext"):
                return "((%s)%s)" % (self.ctype(t), self.const_expr(ops[0]))
            if op == "icmp":
                pred = v.extra["pred"]
                c = {"eq": "==", "ne": "!="}.get(pred)
                if c:
                    return "((u8)(%s %s %s))" % (self.const_expr(ops[0]), c, self.const_expr(ops[1]))
            if op == "select":
                return "(%s ? %s : %s)" % tuple(self.const_expr(o) for o in ops)
            raise IRError("const expr %s" % op)
        if k == "blockaddr":
            return "0"
        raise IRError("const_expr kind %s" % k)

    def note_func_ref(self, name):
        pass

    def gep_expr(self, srcty, base, idxs, valf, rty):
        """C expression for GEP. base is C expr of type srcty*."""
        first = idxs[0]
        if first.kind == "int" and first.v == 0:
            e = "(*%s)" % base
        else:
            e = "%s[%s]" % (base, self.sidx(first, valf))
        t = srcty
        rest = idxs[1:]
        for k, ix in enumerate(rest):
            if t.kind == "named" and t.name in self.retype:
                # remaining path runs inside retyped in-place storage: constant byte offset from its start
                off = 0
                tt = t
                for jx in rest[k:]:
                    rt = self.m.resolve(tt)
                    if jx.kind != "int":
                        raise IRError("symbolic index inside retyped storage")
                    if rt.kind == "struct":
                        off += self.m.field_offset(rt, jx.v)
                        tt = rt.fields[jx.v]
                    else:
                        off += jx.v * self.m.sizeof(rt.elem)
                        tt = rt.elem
                self.ctype(srcty)
                return "((%s)((u8*)&%s + %d))" % (self.ctype(rty), e, off)
            rt = self.m.resolve(t)
            if rt.kind == "struct":
                e += ".f%d" % ix.v
                t = rt.fields[ix.v]
            else:
                e += ".a[%s]" % self.sidx(ix, valf)
                t = rt.elem
        self.ctype(srcty)
        return "(&%s)" % e

    def sidx(self, ix, valf):
        if ix.kind == "int":
            return str(ix.v)
        b = ix.ty.bits
        st = {8: "i8", 16: "i16", 32: "i32", 64: "i64"}.get(b)
        if st is None:
            return "(i64)%s" % valf(ix)
        return "(i64)(%s)%s" % (st, valf(ix))

    # ------------------------------------------------------------- module
    def is_opaque_fn(self, name):
        return any(r.search(name) for r in self.opaque)

    def reachable(self, entries):
        seen = set()
        work = list(entries)
        gseen = set()

        def scan_val(v):
            if v is None:
                return
            if v.kind == "global":
                nm = v.v
                if nm in self.m.aliases:
                    scan_val(self.m.aliases[nm])
                elif nm in self.m.funcs:
                    if nm not in seen:
                        work.append(nm)
                elif nm in self.m.globals and nm not in gseen:
                    gseen.add(nm)
                    g = self.m.globals[nm]
                    if g.init is not None:
                        scan_val(g.init)
            if v.ops:
                for o in v.ops:
                    scan_val(o)

        while work:
            n = work.pop()
            if n in seen:
                continue
            seen.add(n)
            f = self.m.funcs.get(n)
            if f is None or f.is_decl or self.is_opaque_fn(n):
                continue
            for ins in f.instrs():
                for o in ins.ops:
                    scan_val(o)
                if ins.op in ("call", "invoke"):
                    scan_val(ins.attrs["callee"])
                if ins.op == "landingpad":
                    for (_, cv) in ins.attrs["clauses"]:
                        scan_val(cv)
        return seen, gseen

    def generate(self, entries, model_names, extra_defs=""):
        m = self.m
        funcs, globs = self.reachable(entries)
        self.live_funcs = funcs
        self.model_names = model_names
        body = []
        protos = []
        # globals
        gl = []
        for gn in sorted(globs):
            g = m.globals[gn]
            ct = self.ctype(g.ty)
            nm = self.gname(gn)
            tl = "__thread " if g.tls else ""
            if g.const and g.init is not None:
                tl = "const " + tl
            if g.init is None and gn.startswith("_ZTI"):
                # external typeinfo object (fundamental / std types): { vptr, name } with the mangled name
                gl.append((nm, 'u8 *%s[2] = {0, (u8*)"%s"};' % (nm, gn[4:]), None))
            elif g.init is None:
                gl.append((nm, "%s%s %s;" % (tl, ct, nm), None))
            else:
                gl.append((nm, "%s%s %s;" % (tl, ct, nm), (g, ct, nm, tl)))
        # function prototypes
        defs = []
        missing = []
        for fn in sorted(funcs):
            f = m.funcs.get(fn)
            if f is None:
                continue
            if fn.startswith("llvm.") or (fn in INLINE_HANDLED and f.is_decl) or (fn in ALLOC_FUNCS and f.is_decl):
                continue
            if f.is_decl or self.is_opaque_fn(fn):
                nm = self.gname(fn)
                protos.append(self.ext_proto(f) + ";")
                if self.is_opaque_fn(fn) or nm not in model_names:
                    if nm not in model_names:
                        missing.append(fn)
                    body.append(self.opaque_stub(f))
                else:
                    protos.append("#define NEED_%s 1" % nm)
            else:
                protos.append(self.proto(f) + ";")
                defs.append(f)
        at = self.address_taken()
        for f in defs:
            lines = self.func(f)
            if f.name in at and not f.name.startswith("vp_main"):
                nm = self.gname(f.name)
                lines[0] = lines[0].replace(" %s(" % nm, " %s__body(" % nm, 1)
                hdr = self.proto(f)
                call = "%s__body(%s)" % (nm, ", ".join(self.lname_raw(p[1]) for p in f.params))
                w = ["static VP_TLS int vp_depth_%s;" % nm, hdr, "{",
                     '  if (vp_depth_%s >= VP_RECLIMIT) { __CPROVER_assert(0, "BOUND:re-entry depth of an address-taken function exceeds VP_RECLIMIT"); __CPROVER_assume(0); }' % nm,
                     "  vp_depth_%s++;" % nm]
                if f.ret.kind == "void":
                    w += ["  %s;" % call, "  vp_depth_%s--;" % nm, "}"]
                else:
                    w += ["  %s r_ = %s;" % (self.ctype(f.ret), call), "  vp_depth_%s--;" % nm, "  return r_;", "}"]
                lines = ["static " + lines[0].replace("static ", "")] + lines[1:] + w
            body.extend(lines)
        out = []
        out.append("/* generated by ll2c */")
        out.append('#include "vp_pre.h"')
        tdefs = self.emit_types()
        out.extend(tdefs)
        out.append("/* typeinfo ids */")
        out.append("#define VP_NTID %d" % (len(self.tid) + 1))
        par = [0] * (len(self.tid) + 1)
        for k, i in self.tid.items():
            p = self.tparent.get(k)
            par[i] = self.tid.get(p, 0) if p else 0
        out.append("static const int vp_tid_parent[VP_NTID] = {%s};" % ", ".join(map(str, par)))
        for k, i in self.tid.items():
            out.append("#define VP_TID_%s %d" % (san(k), i))
        out.extend(protos)
        for (nm, decl, _) in gl:
            out.append(decl if _ is None else "extern " + decl)
        out.append(extra_defs)
        # run-time class table for __dynamic_cast: typeinfo address -> base class typeinfo address (single inheritance)
        ti = ["static const void *vp_ti_parent(const void *ti) {"]
        for gn in sorted(globs):
            if gn.startswith("_ZTI"):
                par = self.tparent.get(gn[4:])
                if par and ("_ZTI" + par) in globs:
                    ti.append("  if (ti == (const void*)&%s) return (const void*)&%s;" % (self.gname(gn), self.gname("_ZTI" + par)))
        ti.append("  return 0; }")
        out.extend(ti)
        wk = [n for n in funcs if n.endswith("TaskScheduler21TaskingThreadFunctionEPv") and n in m.funcs and not m.funcs[n].is_decl]
        if wk:
            out.append("#define VP_CALL_WORKER(arg) ((void)%s((u8*)(arg)))" % self.gname(wk[0]))
        else:
            out.append("#define VP_CALL_WORKER(arg) ((void)0)")
        out.append('#include "models.c"')
        for ct, sz in sorted(self.new_helpers.items()):
            out.append("static %s *vp_new_%s(u64 nbytes) { __CPROVER_assert(nbytes <= VP_HEAP_MAX, \"BOUND:heap block larger than VP_HEAP_MAX\"); "
                       "__CPROVER_assume(nbytes <= VP_HEAP_MAX); %s *p = (%s*)malloc(sizeof(%s) * ((VP_HEAP_MAX + %d - 1) / %d)); __CPROVER_assume(p != 0); "
                       "vp_objsz[__CPROVER_POINTER_OBJECT(p)] = nbytes + 1; return p; }" % (ct, san(ct), ct, ct, ct, sz, sz))
            out.append("static %s *vp_newc_%s(u64 n) { %s *p = (%s*)malloc(sizeof(%s) * n); __CPROVER_assume(p != 0); return p; }" % (ct, san(ct), ct, ct, ct))
        for ct, sz in sorted(self.copy_helpers.items()):
            out.append("static void vp_copy_%s(%s *d, const %s *s, u64 nbytes) { u64 n = nbytes / %d; u64 rem = nbytes - n * %d; "
                       "if ((u64)d <= (u64)s || (u64)d >= (u64)s + nbytes) { for (u64 i = 0; i < n; i++) { VP_CHK(d+i,%d); VP_CHK(s+i,%d); d[i] = s[i]; } "
                       "if (rem) vp_memcpy((u8*)(d+n), (const u8*)(s+n), rem); } "
                       "else { if (rem) vp_memmove((u8*)(d+n), (const u8*)(s+n), rem); for (u64 i = n; i > 0; i--) { VP_CHK(d+i-1,%d); VP_CHK(s+i-1,%d); d[i-1] = s[i-1]; } } }"
                       % (san(ct), ct, ct, sz, sz, sz, sz, sz, sz))
        for ct, sz in sorted(self.zero_helpers.items()):
            out.append("static void vp_zero_%s(%s *d, u64 nbytes) { u64 n = nbytes / %d; for (u64 i = 0; i < n; i++) { VP_CHK(d+i,%d); d[i] = 0; } if (nbytes - n * %d) vp_memset((u8*)(d+n), 0, nbytes - n * %d); }" % (san(ct), ct, sz, sz, sz, sz))
        for (nm, decl, init) in gl:
            if init is not None:
                g, ct, nm, tl = init
                out.append("%s%s %s = %s;" % (tl, ct, nm, self.const_init(g.init, g.ty)))
        out.extend(body)
        self.missing = missing
        # types may have been registered during body generation: regenerate type section
        tdefs2 = self.emit_types()
        if len(tdefs2) != len(tdefs):
            i0 = out.index(tdefs[0]) if tdefs else 2
            out[i0:i0 + len(tdefs)] = tdefs2
        return "\n".join(out) + "\n"

    def ext_param_type(self, t):
        if t.kind == "ptr":
            return "void*"
        return self.ctype(t)

    def ext_proto(self, f):
        ps = [self.ext_param_type(p[0]) for p in f.params]
        s = ", ".join(ps)
        if f.vararg:
            s = s + ", ..." if s else "..."
        if not s:
            s = "void"
        return "%s %s(%s)" % (self.ext_param_type(f.ret), self.gname(f.name), s)

    def opaque_stub(self, f):
        ps = ["%s a%d" % (self.ext_param_type(p[0]), i) for i, p in enumerate(f.params)]
        s = ", ".join(ps)
        if f.vararg:
            s = s + ", ..." if s else "..."
        if not s:
            s = "void"
        rt = self.ext_param_type(f.ret)
        pre = ""
        for i, p in enumerate(f.params):
            for a in p[2]:
                if isinstance(a, tuple) and a[0] == "sret" and "basic_string" in a[1].key():
                    # opaque function returning a std::string by value: a valid empty string (its contents are outside every claim)
                    pre += "{ struct vp_str *s_ = (struct vp_str*)a%d; s_->p = s_->u.sso; s_->n = 0; s_->u.sso[0] = 0; } " % i
        if f.ret.kind == "void":
            bodyc = pre
        else:
            bodyc = pre + ("%s r; return r;" % rt if f.ret.kind != "ptr" else "return vp_opaque_ptr();")
        return "%s %s(%s) { %s }" % (rt, self.gname(f.name), s, bodyc)

    def proto(self, f):
        ps = ["%s %s" % (self.ctype(p[0]), self.lname_raw(p[1])) for p in f.params]
        s = ", ".join(ps)
        if f.vararg:
            s = s + ", ..." if s else "..."
        if not s:
            s = "void"
        return "%s %s(%s)" % (self.ctype(f.ret), self.gname(f.name), s)

    def lname_raw(self, n):
        return "v" + san(n) if n[0].isdigit() else "v_" + san(n)

    # ------------------------------------------------------------- functions
    def may_throw_callee(self, ins):
        if "nounwind" in ins.attrs["cattrs"]:
            return False
        c = ins.attrs["callee"]
        if c.kind == "global":
            nm = c.v
            if nm.startswith("llvm."):
                return False
            f = self.m.funcs.get(nm)
            if f is not None and "nounwind" in f.attrs:
                return False
            if nm.startswith("vp_"):
                return False
        if c.kind == "asm":
            return False
        return True

    def func(self, f):
        self.f = f
        self.lnames = {}
        used = set()
        for p in f.params:
            n = self.lname_raw(p[1])
            self.lnames[p[1]] = n
            used.add(n)
        o = []
        o.append(self.proto(f))
        o.append("{")
        decls = []
        retc = self.ctype(f.ret)
        if f.ret.kind != "void":
            decls.append("%s vp_dflt;" % retc)
            self.dflt = "vp_dflt"
        else:
            self.dflt = ""
        for ins in f.instrs():
            if ins.res is not None:
                n = self.lname_raw(ins.res)
                while n in used:
                    n += "_"
                used.add(n)
                self.lnames[ins.res] = n
                if ins.ty.kind != "void":
                    decls.append("%s %s;" % (self.ctype(ins.ty), n))
        code = []
        # byval params
        for i, p in enumerate(f.params):
            for a in p[2]:
                if isinstance(a, tuple) and a[0] == "byval":
                    ct = self.ctype(a[1])
                    decls.append("%s vp_byval%d;" % (ct, i))
                    code.append("vp_byval%d = *%s; %s = &vp_byval%d;" % (i, self.lnames[p[1]], self.lnames[p[1]], i))
        self.tmpn = 0
        self.decls = decls
        self.defs = {i.res: i for i in f.instrs() if i.res is not None}
        order = block_order(f)
        if order[0] is not f.blocks[0]:
            raise IRError("entry block not first")
        for b in order:
            code.append("%s: ;" % self.blabel(b.name))
            for ins in b.instrs:
                try:
                    self.instr(ins, b, code)
                except IRError as e:
                    raise IRError("%s in @%s: %s" % (e, f.name, ins))
        o.extend("  " + d for d in decls)
        o.extend("  " + c for c in code)
        o.append("}")
        return o

    def blabel(self, n):
        return "L_" + san(n)

    def val(self, v):
        k = v.kind
        if k == "local":
            return self.lnames[v.v]
        if k in ("zero", "undef") and v.ty.kind in ("struct", "array", "vector", "named"):
            # aggregate zero/undef as expression: use a zeroed temp
            ct = self.ctype(v.ty)
            self.tmpn += 1
            tn = "vp_z%d" % self.tmpn
            self.decls.append("%s %s;" % (ct, tn))
            if k == "zero":
                self.pre.append("memset(&%s, 0, sizeof(%s));" % (tn, tn))
            return tn
        if k in ("struct", "array", "vector"):
            ct = self.ctype(v.ty)
            self.tmpn += 1
            tn = "vp_c%d" % self.tmpn
            self.decls.append("%s %s;" % (ct, tn))
            for i, o in enumerate(v.ops):
                if o.kind == "undef":
                    continue
                acc = (".f%d" % i) if k == "struct" else (".a[%d]" % i)
                self.pre.append("%s%s = %s;" % (tn, acc, self.val(o)))
            return tn
        return self.const_expr(v)

    def mask(self, e, bits):
        if bits in (8, 16, 32, 64, 128):
            return e
        return "((%s) & %s)" % (e, self.const_expr(Val("int", IntT(bits if bits > 32 else 32), (1 << bits) - 1)))

    def sext_expr(self, e, bits):
        """C expression of signed type holding sign-extended value of the bits-wide unsigned e"""
        st = {8: "i8", 16: "i16", 32: "i32", 64: "i64", 128: "i128"}.get(bits)
        if st:
            return "((%s)%s)" % (st, e)
        # odd width: shift up and arithmetic shift down
        w = 8 if bits < 8 else 16 if bits < 16 else 32 if bits < 32 else 64 if bits < 64 else 128
        st = {8: "i8", 16: "i16", 32: "i32", 64: "i64", 128: "i128"}[w]
        ut = {8: "u8", 16: "u16", 32: "u32", 64: "u64", 128: "u128"}[w]
        if bits == 1:
            return "((%s)-(%s)(%s & 1))" % (st, st, e)
        return "((%s)((%s)((%s)%s << %d)) >> %d)" % (st, st, ut, e, w - bits, w - bits)

    def instr(self, ins, b, code):
        self.pre = []
        s = self.instr1(ins, b)
        code.extend(self.pre)
        if isinstance(s, list):
            code.extend(s)
        elif s:
            code.append(s)

    def assign(self, ins, e):
        return "%s = %s;" % (self.lnames[ins.res], e)

    def phi_copies(self, frm, to):
        """statements implementing phi assignments on edge frm->to"""
        tb = self.f.bmap[to]
        phis = [i for i in tb.instrs if i.op == "phi"]
        if not phis:
            return []
        pairs = []
        for p in phis:
            for (v, lb) in p.attrs["incoming"]:
                if lb == frm:
                    pairs.append((p, v))
                    break
        phinames = set(p.res for p in phis)
        conflict = any(v.kind == "local" and v.v in phinames and v.v != p.res for (p, v) in pairs)
        st = []
        if not conflict:
            for (p, v) in pairs:
                if v.kind == "undef":
                    continue
                st.append("%s = %s;" % (self.lnames[p.res], self.val(v)))
        else:
            tmps = []
            for (p, v) in pairs:
                if v.kind == "undef":
                    continue
                self.tmpn += 1
                tn = "vp_p%d" % self.tmpn
                self.decls.append("%s %s;" % (self.ctype(p.ty), tn))
                st.append("%s = %s;" % (tn, self.val(v)))
                tmps.append((p, tn))
            for (p, tn) in tmps:
                st.append("%s = %s;" % (self.lnames[p.res], tn))
        # constant aggregate temporaries
        pre = self.pre
        self.pre = []
        return pre + st

    def goto(self, frm, to):
        c = self.phi_copies(frm, to)
        return " ".join(c + ["goto %s;" % self.blabel(to)])

    def instr1(self, ins, b):
        op = ins.op
        A = ins.attrs
        if op == "phi":
            return None
        if op in ("add", "sub", "mul", "udiv", "sdiv", "urem", "srem", "shl", "lshr", "ashr", "and", "or", "xor"):
            return self.binop(ins)
        if op in ("fadd", "fsub", "fmul", "fdiv", "frem"):
            if ins.ty.kind == "vector":
                return self.vec_elementwise(ins, lambda a, b_: self.fbin(op, a, b_, ins.ty.elem))
            return self.assign(ins, self.fbin(op, self.val(ins.ops[0]), self.val(ins.ops[1]), ins.ty))
        if op == "fneg":
            if ins.ty.kind == "vector":
                return self.vec_elementwise(ins, lambda a: "(-%s)" % a)
            return self.assign(ins, "(-%s)" % self.val(ins.ops[0]))
        if op == "icmp":
            return self.icmp(ins)
        if op == "fcmp":
            if ins.ops[0].ty.kind == "vector":
                return self.vec_elementwise(ins, lambda a, b_: self.fcmp_expr(A["pred"], a, b_))
            return self.assign(ins, self.fcmp_expr(A["pred"], self.val(ins.ops[0]), self.val(ins.ops[1])))
        if op == "select":
            c, a, b_ = ins.ops
            if c.ty.kind == "vector":
                n = c.ty.n
                cv, av, bv = self.val(c), self.val(a), self.val(b_)
                r = self.lnames[ins.res]
                return ["%s.a[%d] = %s.a[%d] ? %s.a[%d] : %s.a[%d];" % (r, i, cv, i, av, i, bv, i) for i in range(n)]
            return self.assign(ins, "(%s ? %s : %s)" % (self.val(c), self.val(a), self.val(b_)))
        if op in ("trunc", "zext", "sext", "fptrunc", "fpext", "fptoui", "fptosi", "uitofp", "sitofp", "ptrtoint",
                  "inttoptr", "bitcast", "addrspacecast"):
            return self.cast(ins)
        if op == "alloca":
            elty = A["elty"]
            ct = self.ctype(elty)
            r = self.lnames[ins.res]
            if ins.ops and not (ins.ops[0].kind == "int" and ins.ops[0].v == 1):
                n = self.val(ins.ops[0])
                return "%s = (%s*)__builtin_alloca((u64)%s * sizeof(%s));" % (r, ct, n, ct)
            al = A.get("align")
            alattr = " __attribute__((aligned(%d)))" % al if al and al > 8 else ""
            self.decls.append("%s %s_mem%s;" % (ct, r, alattr))
            return "%s = &%s_mem;" % (r, r)
        if op == "load":
            p = self.val(ins.ops[0])
            pre, post = self.race_wrap(ins, p, False)
            return self.heap_chk(ins.ops[0], p, ins.ty) + pre + [self.assign(ins, "*%s" % p)] + post
        if op == "store":
            v = self.val(ins.ops[0])
            p = self.val(ins.ops[1])
            pre, post = self.race_wrap(ins, p, True)
            return self.heap_chk(ins.ops[1], p, ins.ops[0].ty) + pre + ["*%s = %s;" % (p, v)] + post
        if op == "getelementptr":
            base = ins.ops[0]
            if base.ty.kind == "vector":
                raise IRError("vector gep")
            return self.assign(ins, self.gep_expr(A["srcty"], self.val(base), ins.ops[1:], self.val, ins.ty))
        if op == "call" or op == "invoke":
            return self.call(ins, b)
        if op == "ret":
            if ins.ops:
                return "return %s;" % self.val(ins.ops[0])
            return "return;"
        if op == "br":
            tg = A["targets"]
            if len(tg) == 1:
                return self.goto(b.name, tg[0])
            c = self.val(ins.ops[0])
            return "if (%s) { %s } else { %s }" % (c, self.goto(b.name, tg[0]), self.goto(b.name, tg[1]))
        if op == "switch":
            v = self.val(ins.ops[0])
            bits = ins.ops[0].ty.bits
            st = ["switch (%s) {" % v]
            for (cv, lb) in A["cases"]:
                cval = cv & ((1 << bits) - 1)
                st.append("  case %dULL: { %s }" % (cval, self.goto(b.name, lb)))
            st.append("  default: { %s }" % self.goto(b.name, A["default"]))
            st.append("}")
            return st
        if op == "unreachable":
            return "if (vp_exc.active) return %s; VP_UNREACHABLE();" % self.dflt
        if op == "resume":
            v = self.val(ins.ops[0])
            return "vp_exc.active = 1; vp_exc.obj = %s.f0; return %s;" % (v, self.dflt)
        if op == "landingpad":
            r = self.lnames[ins.res]
            st = ["vp_exc.active = 0;", "%s.f0 = (u8*)vp_exc.obj;" % r]
            sel = "0"
            # clauses in order: first match wins
            expr = "0"
            for (kind, cv) in reversed(A["clauses"]):
                if kind == "catch":
                    if cv.kind == "null":
                        expr = "VP_TID_CATCHALL"
                    else:
                        g = self._strip_global(cv)
                        tidn = "VP_TID_%s" % san(g[4:])
                        expr = "(vp_exc_match(vp_exc.tid, %s) ? %s : %s)" % (tidn, tidn, expr)
                else:
                    # filter clause (exception specification): treat as non-matching
                    pass
            st.append("%s.f1 = (u32)%s;" % (r, expr))
            return st
        if op == "extractvalue":
            e = self.val(ins.ops[0])
            t = ins.ops[0].ty
            for i in A["idx"]:
                rt = self.m.resolve(t)
                if rt.kind == "struct":
                    e += ".f%d" % i
                    t = rt.fields[i]
                else:
                    e += ".a[%d]" % i
                    t = rt.elem
            return self.assign(ins, e)
        if op == "insertvalue":
            r = self.lnames[ins.res]
            st = []
            if ins.ops[0].kind != "undef":
                st.append("%s = %s;" % (r, self.val(ins.ops[0])))
            e = r
            t = ins.ty
            for i in A["idx"]:
                rt = self.m.resolve(t)
                if rt.kind == "struct":
                    e += ".f%d" % i
                    t = rt.fields[i]
                else:
                    e += ".a[%d]" % i
                    t = rt.elem
            st.append("%s = %s;" % (e, self.val(ins.ops[1])))
            return st
        if op == "extractelement":
            return self.assign(ins, "%s.a[%s]" % (self.val(ins.ops[0]), self.val(ins.ops[1])))
        if op == "insertelement":
            r = self.lnames[ins.res]
            st = []
            if ins.ops[0].kind != "undef":
                st.append("%s = %s;" % (r, self.val(ins.ops[0])))
            st.append("%s.a[%s] = %s;" % (r, self.val(ins.ops[2]), self.val(ins.ops[1])))
            return st
        if op == "shufflevector":
            r = self.lnames[ins.res]
            n = ins.ops[0].ty.n
            a = self.val(ins.ops[0])
            bb = self.val(ins.ops[1]) if ins.ops[1].kind != "undef" else None
            st = []
            self.tmpn += 1
            tn = "vp_s%d" % self.tmpn
            self.decls.append("%s %s;" % (self.ctype(ins.ty), tn))
            for i, mi in enumerate(A["mask"]):
                if mi < 0:
                    continue
                if mi < n:
                    st.append("%s.a[%d] = %s.a[%d];" % (tn, i, a, mi))
                else:
                    st.append("%s.a[%d] = %s.a[%d];" % (tn, i, bb, mi - n))
            st.append("%s = %s;" % (r, tn))
            return st
        if op == "atomicrmw":
            p, v = self.val(ins.ops[0]), self.val(ins.ops[1])
            r = self.lnames[ins.res] if ins.res else None
            rmw = A["rmw"]
            ct = self.ctype(ins.ty)
            newv = {"xchg": v, "add": "(%s)(*%s + %s)" % (ct, p, v), "sub": "(%s)(*%s - %s)" % (ct, p, v),
                    "and": "(*%s & %s)" % (p, v), "or": "(*%s | %s)" % (p, v), "xor": "(*%s ^ %s)" % (p, v),
                    "max": None, "min": None, "umax": "(*%s > %s ? *%s : %s)" % (p, v, p, v),
                    "umin": "(*%s < %s ? *%s : %s)" % (p, v, p, v)}[rmw]
            if newv is None:
                raise IRError("atomicrmw %s" % rmw)
            st = ["VP_ATOMIC_BEGIN();"]
            if self.race:
                st.append("VP_RACE_AW(%s, %d);" % (p, self.m.sizeof(ins.ty)))
            if r:
                st.append("%s = *%s;" % (r, p))
            st.append("*%s = %s;" % (p, newv))
            st.append("VP_ATOMIC_END();")
            return st
        if op == "cmpxchg":
            p, c, n = [self.val(x) for x in ins.ops]
            r = self.lnames[ins.res]
            return (["VP_RACE_AW(%s, %d);" % (p, self.m.sizeof(ins.ops[1].ty))] if self.race else []) + ["VP_ATOMIC_BEGIN();", "%s.f0 = *%s;" % (r, p), "%s.f1 = (%s.f0 == %s);" % (r, r, c),
                    "if (%s.f1) *%s = %s;" % (r, p, n), "VP_ATOMIC_END();"]
        if op == "fence":
            return "VP_FENCE();"
        if op == "freeze":
            return self.assign(ins, self.val(ins.ops[0]))
        raise IRError("unsupported instruction %s" % op)

    def ptr_root_static(self, v, depth=0):
        """True if pointer value provably derives from an alloca or a global (never a heap block)"""
        if v.kind in ("global", "null"):
            return True
        if v.kind == "cexpr":
            return v.v in ("getelementptr", "bitcast") and self.ptr_root_static(v.ops[0], depth + 1)
        if v.kind == "local" and depth < 12:
            d = self.defs.get(v.v)
            if d is None:
                return False
            if d.op == "alloca":
                return True
            if d.op in ("getelementptr", "bitcast"):
                return self.ptr_root_static(d.ops[0], depth + 1)
        return False

    def heap_chk(self, pv, p, ty):
        if self.ptr_root_static(pv):
            return []
        try:
            sz = self.m.sizeof(ty)
        except IRError:
            return []
        return ["VP_CHK(%s, %d);" % (p, sz)]

    def race_wrap(self, ins, p, is_write):
        if not self.race:
            return [], []
        if ins.attrs.get("atomic"):
            t = ins.ty if ins.op == "load" else ins.ops[0].ty
            return ["VP_RACE_A%s(%s, %d);" % ("W" if is_write else "R", p, self.m.sizeof(t))], []
        t = ins.ty if ins.op == "load" else ins.ops[0].ty
        try:
            sz = self.m.sizeof(t)
        except IRError:
            sz = 1
        if is_write:
            return ["VP_RACE_W_BEGIN(%s, %d);" % (p, sz)], ["VP_RACE_W_END(%s, %d);" % (p, sz)]
        return ["VP_RACE_R_BEGIN(%s, %d);" % (p, sz)], ["VP_RACE_R_END(%s, %d);" % (p, sz)]

    def vec_elementwise(self, ins, fn):
        r = self.lnames[ins.res]
        n = ins.ops[0].ty.n
        vs = [self.val(o) for o in ins.ops]
        return ["%s.a[%d] = %s;" % (r, i, fn(*["%s.a[%d]" % (v, i) for v in vs])) for i in range(n)]

    def fbin(self, op, a, b, ty):
        c = {"fadd": "+", "fsub": "-", "fmul": "*", "fdiv": "/"}.get(op)
        if c:
            return "(%s)(%s %s %s)" % (self.ctype(ty), a, c, b)
        return "%s(%s, %s)" % ("fmodf" if ty.kind == "float" else "fmod", a, b)

    def fcmp_expr(self, pred, a, b):
        m = {"oeq": "(%s == %s)", "ogt": "(%s > %s)", "oge": "(%s >= %s)", "olt": "(%s < %s)", "ole": "(%s <= %s)",
             "une": "(%s != %s)", "ugt": "(!(%s <= %s))", "uge": "(!(%s < %s))", "ult": "(!(%s >= %s))",
             "ule": "(!(%s > %s))"}
        if pred in m:
            return "((u8)%s)" % (m[pred] % (a, b))
        if pred == "one":
            return "((u8)(%s < %s || %s > %s))" % (a, b, a, b)
        if pred == "ueq":
            return "((u8)!(%s < %s || %s > %s))" % (a, b, a, b)
        if pred == "ord":
            return "((u8)(%s == %s && %s == %s))" % (a, a, b, b)
        if pred == "uno":
            return "((u8)(%s != %s || %s != %s))" % (a, a, b, b)
        if pred == "true":
            return "1"
        if pred == "false":
            return "0"
        raise IRError("fcmp %s" % pred)

    def binop(self, ins):
        op = ins.op
        t = ins.ty
        if t.kind == "vector":
            et = t.elem
            return self.vec_elementwise(ins, lambda a, b: self.int_binop_expr(op, a, b, et, ins.attrs.get("flags", []))[0])
        e, checks = self.int_binop_expr(op, self.val(ins.ops[0]), self.val(ins.ops[1]), t, ins.attrs.get("flags", []))
        return checks + [self.assign(ins, e)]

    def int_binop_expr(self, op, a, b, t, flags):
        bits = t.bits
        ct = self.ctype(t)
        checks = []
        wt = "u32" if bits <= 32 else ct   # working type avoiding int promotion surprises
        swt = {"u32": "i32", "u64": "i64", "u128": "i128"}[wt]
        ua, ub = "(%s)%s" % (wt, a), "(%s)%s" % (wt, b)
        if op in ("add", "sub", "mul"):
            c = {"add": "+", "sub": "-", "mul": "*"}[op]
            if "nsw" in flags:
                sa, sb = self.sext_expr(a, bits), self.sext_expr(b, bits)
                if bits in (32, 64):
                    e = "((%s)(%s %s %s))" % (ct, sa, c, sb)
                else:
                    big = "i64" if bits < 32 else "i128"
                    checks.append("VP_UB((%s)%s %s (%s)%s >= -((%s)1 << %d) && (%s)%s %s (%s)%s < ((%s)1 << %d), \"nsw overflow\");"
                                  % (big, sa, c, big, sb, big, bits - 1, big, sa, c, big, sb, big, bits - 1))
                    e = self.mask("((%s)(%s %s %s))" % (ct, ua, c, ub), bits)
            else:
                e = self.mask("((%s)(%s %s %s))" % (ct, ua, c, ub), bits)
                if "nuw" in flags:
                    if op == "add":
                        checks.append("VP_UB((%s)(%s + %s) >= %s, \"nuw overflow\");" % (wt if bits in (32, 64, 128) else "u64", ua, ub, ua)
                                      if bits in (32, 64, 128) else
                                      "VP_UB((u64)%s + (u64)%s < ((u64)1 << %d), \"nuw overflow\");" % (a, b, bits))
                    elif op == "sub":
                        checks.append("VP_UB(%s >= %s, \"nuw overflow\");" % (ua, ub))
                    elif op == "mul":
                        if bits <= 32:
                            checks.append("VP_UB((u64)%s * (u64)%s < ((u64)1 << %d), \"nuw overflow\");" % (a, b, bits))
                        elif bits == 64:
                            checks.append("VP_UB(((u128)%s * (u128)%s) >> 64 == 0, \"nuw overflow\");" % (a, b))
            return e, checks
        if op in ("udiv", "urem"):
            c = "/" if op == "udiv" else "%"
            return "((%s)(%s %s %s))" % (ct, ua, c, ub), checks
        if op in ("sdiv", "srem"):
            c = "/" if op == "sdiv" else "%"
            sa, sb = self.sext_expr(a, bits), self.sext_expr(b, bits)
            if bits < 32:
                sa, sb = "(i32)" + sa, "(i32)" + sb
            return self.mask("((%s)(%s %s %s))" % (ct, sa, c, sb), bits), checks
        if op in ("and", "or", "xor"):
            c = {"and": "&", "or": "|", "xor": "^"}[op]
            return "((%s)(%s %s %s))" % (ct, a, c, b), checks
        if op == "shl":
            checks.append("VP_UB(%s < %d, \"shift amount\");" % (ub, bits))
            return self.mask("((%s)(%s << %s))" % (ct, ua, ub), bits), checks
        if op == "lshr":
            checks.append("VP_UB(%s < %d, \"shift amount\");" % (ub, bits))
            return "((%s)(%s >> %s))" % (ct, ua, ub), checks
        if op == "ashr":
            checks.append("VP_UB(%s < %d, \"shift amount\");" % (ub, bits))
            sa = self.sext_expr(a, bits)
            if bits < 32:
                sa = "(i32)" + sa
            return self.mask("((%s)(%s >> %s))" % (ct, sa, ub), bits), checks
        raise IRError(op)

    def icmp(self, ins):
        pred = ins.attrs["pred"]
        a, b = ins.ops
        t = a.ty
        if t.kind == "vector":
            et = t.elem
            return self.vec_elementwise(ins, lambda x, y: self.icmp_expr(pred, x, y, et))
        return self.assign(ins, self.icmp_expr(pred, self.val(a), self.val(b), t))

    def icmp_expr(self, pred, a, b, t):
        c = {"eq": "==", "ne": "!=", "ugt": ">", "uge": ">=", "ult": "<", "ule": "<=",
             "sgt": ">", "sge": ">=", "slt": "<", "sle": "<="}[pred]
        if t.kind == "ptr":
            if pred in ("eq", "ne"):
                return "((u8)((u8*)%s %s (u8*)%s))" % (a, c, b)
            if pred[0] == "u":
                return "((u8)((u64)%s %s (u64)%s))" % (a, c, b)
            return "((u8)((i64)(u64)%s %s (i64)(u64)%s))" % (a, c, b)
        bits = t.bits
        if pred[0] == "s":
            sa, sb = self.sext_expr(a, bits), self.sext_expr(b, bits)
            return "((u8)(%s %s %s))" % (sa, c, sb)
        wt = "u32" if bits <= 32 else self.ctype(t)
        return "((u8)((%s)%s %s (%s)%s))" % (wt, a, c, wt, b)

    def cast(self, ins):
        op = ins.op
        src = ins.ops[0]
        st, dt = src.ty, ins.ty
        v = self.val(src)
        dct = self.ctype(dt)
        if dt.kind == "vector" and op != "bitcast":
            n = dt.n
            r = self.lnames[ins.res]
            out = []
            for i in range(n):
                out.append("%s.a[%d] = %s;" % (r, i, self.cast_scalar(op, "%s.a[%d]" % (v, i), st.elem, dt.elem)))
            return out
        if op == "bitcast":
            if st.kind == "ptr" and dt.kind == "ptr":
                return self.assign(ins, "(%s)%s" % (dct, v))
            # value reinterpretation through a union
            sct = self.ctype(st)
            self.tmpn += 1
            tn = "vp_u%d" % self.tmpn
            self.decls.append("union { %s a; %s b; } %s;" % (sct, dct, tn))
            return ["%s.a = %s;" % (tn, v), self.assign(ins, "%s.b" % tn)]
        return self.assign(ins, self.cast_scalar(op, v, st, dt))

    def cast_scalar(self, op, v, st, dt):
        dct = self.ctype(dt)
        if op == "trunc":
            return self.mask("((%s)%s)" % (dct, v), dt.bits)
        if op == "zext":
            return "((%s)%s)" % (dct, v)
        if op == "sext":
            return self.mask("((%s)%s)" % (dct, self.sext_expr(v, st.bits)), dt.bits)
        if op in ("fptrunc", "fpext"):
            return "((%s)%s)" % (dct, v)
        if op == "fptoui":
            return self.mask("((%s)%s)" % (dct, v), dt.bits)
        if op == "fptosi":
            sdt = {8: "i8", 16: "i16", 32: "i32", 64: "i64"}[dt.bits]
            return "((%s)(%s)%s)" % (dct, sdt, v)
        if op == "uitofp":
            return "((%s)%s)" % (dct, v)
        if op == "sitofp":
            return "((%s)%s)" % (dct, self.sext_expr(v, st.bits))
        if op == "ptrtoint":
            return "((%s)%s)" % (dct, v)
        if op == "inttoptr":
            return "((%s)(u64)%s)" % (dct, v)
        if op == "addrspacecast":
            return "((%s)%s)" % (dct, v)
        raise IRError(op)

    # ------------------------------------------------------------- calls
    def strlit(self, v):
        """resolve constant i8* to C string literal if it points at a constant cstr global"""
        g = v
        while g.kind == "cexpr" and g.v in ("getelementptr", "bitcast"):
            if g.v == "getelementptr" and not all(o.kind == "int" and o.v == 0 for o in g.ops[1:]):
                return None
            g = g.ops[0]
        if g.kind == "global" and g.v in self.m.globals:
            init = self.m.globals[g.v].init
            if init is not None and init.kind == "cstr":
                s = init.v.rstrip(b"\0").decode("latin1")
                return '"' + re.sub(r'[^A-Za-z0-9 _.,:;<>=+*/()\[\]!?&|#@%-]', "_", s) + '"'
        return None

    def call(self, ins, b):
        A = ins.attrs
        callee = A["callee"]
        args = ins.ops
        st = []
        is_invoke = ins.op == "invoke"
        res = self.lnames.get(ins.res) if ins.res is not None else None
        handled = False
        if callee.kind == "asm":
            handled = True  # compiler barriers / pause
        elif callee.kind == "global" and callee.v not in self.m.aliases:
            name = callee.v
            f = self.m.funcs.get(name)
            if name.startswith("llvm."):
                st.extend(self.intrinsic(ins, name, res))
                handled = True
            elif name == "vp_assert":
                lab = self.strlit(args[1]) or '"vp_assert"'
                st.append("VP_ASSERT(%s, %s);" % (self.val(args[0]), lab))
                handled = True
            elif name == "vp_reach":
                lab = self.strlit(args[0]) or '"reach"'
                st.append("VP_REACH(%s);" % lab)
                handled = True
            elif name == "vp_point" and (f is None or f.is_decl):
                lab = self.strlit(args[0]) or '"pt"'
                st.append("VP_POINT(%s);" % lab)
                handled = True
            elif name == "vp_assume":
                st.append("__CPROVER_assume(%s);" % self.val(args[0]))
                handled = True
            elif name == "__cxa_throw":
                g = self._strip_global(args[1])
                st.append("vp_throw(%s, VP_TID_%s);" % (self.val(args[0]), san(g[4:])))
                handled = True
            elif name == "vp_run_thread":
                runs = [n for n in self.live_funcs if "_State_impl" in n and n.endswith("6_M_runEv") and n in self.m.funcs and not self.m.funcs[n].is_decl]
                if not runs:
                    raise IRError("vp_run_thread: no std::thread::_State_impl::_M_run in the module")
                parts = []
                for rn in sorted(runs):
                    rf = self.m.funcs[rn]
                    parts.append("if ((*(u8***)vp_thr_state)[2] == (u8*)&%s) { %s((%s)vp_thr_state); }" % (self.gname(rn), self.gname(rn), self.ctype(rf.params[0][0])))
                parts.append('{ __CPROVER_assert(0, "HARNESS:vp_run_thread: no thread body matches"); }')
                st.append(" else ".join(parts))
                handled = True
            elif name == "vp_spawn":
                fnv = args[0]
                st.append("VP_SPAWN(%s, %s);" % (self.val(fnv), self.val(args[1])))
                handled = True
            elif name in ALLOC_FUNCS and f is not None and f.is_decl and res is not None:
                et = self.alloc_elem_type(ins)
                ct = self.ctype(et) if et is not None else "u8"
                sz = self.m.sizeof(et) if et is not None else 1
                self.new_helpers[ct] = sz
                nbytes = self.val(args[0])
                if name == "calloc":
                    nbytes = "(%s * %s)" % (self.val(args[0]), self.val(args[1]))
                if args[0].kind == "int" and name != "calloc":
                    nb = args[0].v
                    if nb % sz == 0 and nb > 0:
                        st.append("%s = (u8*)vp_newc_%s(%d);" % (res, san(ct), nb // sz))
                    else:
                        self.new_helpers["u8"] = 1
                        st.append("%s = (u8*)vp_newc_u8(%d);" % (res, max(nb, 1)))
                elif name in ("malloc", "calloc"):
                    # C allocation may fail: requests above the modelled block capacity return NULL instead of tripping the bound
                    st.append("%s = (%s > VP_HEAP_MAX) ? (u8*)0 : (u8*)vp_new_%s(%s);" % (res, nbytes, san(ct), nbytes))
                else:
                    st.append("%s = (u8*)vp_new_%s(%s);" % (res, san(ct), nbytes))
                if name == "calloc":
                    st.append("if (%s) vp_memset(%s, 0, %s);" % (res, res, nbytes))
                handled = True
            elif f is not None and (f.is_decl or self.is_opaque_fn(name)):
                # external: pointer-erased prototype
                cargs = []
                for a in args:
                    if a.ty.kind == "ptr":
                        cargs.append("(void*)%s" % self.val(a))
                    else:
                        cargs.append(self.val(a))
                e = "%s(%s)" % (self.gname(name), ", ".join(cargs))
                if res is not None:
                    if ins.ty.kind == "ptr":
                        e = "(%s)%s" % (self.ctype(ins.ty), e)
                    st.append("%s = %s;" % (res, e))
                else:
                    st.append(e + ";")
                handled = True
        if not handled:
            # direct call to defined function or indirect call
            if callee.kind == "global" and callee.v in self.m.funcs and callee.v not in self.m.aliases:
                f = self.m.funcs[callee.v]
                fe = self.gname(callee.v)
                ptys = [p[0] for p in f.params]
                cargs = []
                for i, a in enumerate(args):
                    av = self.val(a)
                    if i < len(ptys) and ptys[i].key() != a.ty.key():
                        av = "(%s)%s" % (self.ctype(ptys[i]), av)
                    cargs.append(av)
            else:
                fty = A["fty"]
                if fty is None:
                    fty = Type("func", ret=ins.ty, params=[a.ty for a in args], vararg=False)
                fe = None
                cands = self.indirect_candidates(fty, args, callee)
                fpv = self.val(callee)
                cargs = [self.val(a) for a in args]
                parts = []
                for cf in cands:
                    ca = []
                    for i, a in enumerate(args):
                        pt = cf.params[i][0]
                        ca.append(cargs[i] if pt.key() == a.ty.key() else "(%s)%s" % (self.ctype(pt), cargs[i]))
                    ce = "%s(%s)" % (self.gname(cf.name), ", ".join(ca))
                    if res is not None:
                        if cf.ret.key() != ins.ty.key():
                            ce = "(%s)%s" % (self.ctype(ins.ty), ce)
                        ce = "%s = %s" % (res, ce)
                    parts.append("if ((u8*)%s == (u8*)&%s) { %s; }" % (fpv, self.gname(cf.name), ce))
                parts.append('{ __CPROVER_assert(0, "MEM:indirect call through a pointer that is none of the %d address-taken candidates"); __CPROVER_assume(0); }' % len(cands))
                st.append(" else ".join(parts))
            if fe is not None:
                e = "%s(%s)" % (fe, ", ".join(cargs))
                if res is not None:
                    st.append("%s = %s;" % (res, e))
                else:
                    st.append(e + ";")
        if is_invoke:
            st.append("if (vp_exc.active) { %s } else { %s }" % (self.goto(b.name, A["unwind"]), self.goto(b.name, A["normal"])))
        elif self.may_throw_callee(ins):
            st.append("if (vp_exc.active) return %s;" % self.dflt)
        return st

    def alloc_elem_type(self, ins):
        """type T if the allocation result is (first) bitcast to T*"""
        for u in self.f.instrs():
            if u.op == "bitcast" and u.ops[0].kind == "local" and u.ops[0].v == ins.res and u.ty.kind == "ptr":
                et = u.ty.elem
                if et.kind == "func" or self.m.is_opaque(et) or (et.kind == "int" and et.bits == 8):
                    continue
                try:
                    if self.m.sizeof(et) == 0:
                        continue
                except IRError:
                    continue
                return et
        return None

    def typed_root(self, v):
        """(root value, root elem type, byte offset): outermost typed object the i8*-ish pointer v points into,
        following bitcasts and all-constant GEPs backwards"""
        off = 0
        cur = v
        best = None
        for _ in range(16):
            if cur.ty is not None and cur.ty.kind == "ptr":
                t = cur.ty.elem
                if t.kind in ("named", "struct", "array") and not self.m.is_opaque(t):
                    try:
                        self.m.sizeof(t)
                        best = (cur, t, off)
                    except IRError:
                        pass
                elif best is None and t.kind in ("int", "ptr", "float", "double") and not (t.kind == "int" and t.bits == 8):
                    best = (cur, t, off)
            d = None
            if cur.kind == "local":
                d = self.defs.get(cur.v)
                if d is None:
                    break
                op, ops, srcty = d.op, d.ops, d.attrs.get("srcty")
            elif cur.kind == "cexpr":
                op, ops, srcty = cur.v, cur.ops, (cur.extra or {}).get("srcty")
            else:
                break
            if op == "bitcast" and ops[0].ty.kind == "ptr":
                cur = ops[0]
                continue
            if op == "getelementptr" and all(o.kind == "int" for o in ops[1:]):
                t = srcty
                o = ops[1].v * self.m.sizeof(t)
                ok = True
                for ix in ops[2:]:
                    rt = self.m.resolve(t)
                    if rt.kind == "struct":
                        o += self.m.field_offset(rt, ix.v)
                        t = rt.fields[ix.v]
                    elif rt.kind in ("array", "vector"):
                        o += ix.v * self.m.sizeof(rt.elem)
                        t = rt.elem
                    else:
                        ok = False
                        break
                if not ok:
                    break
                off += o
                cur = ops[0]
                continue
            break
        return best

    def leaves(self, t, base=0, out=None, limit=80):
        """flatten type into [(offset, scalar type)] honouring in-place storage retyping"""
        if out is None:
            out = []
        if len(out) > limit:
            raise IRError("too many leaves")
        if t.kind == "named" and t.name in self.retype:
            return self.leaves(self.retype[t.name], base, out, limit)
        rt = self.m.resolve(t) if t.kind == "named" else t
        if rt.kind == "struct":
            for i, f in enumerate(rt.fields):
                self.leaves(f, base + self.m.field_offset(rt, i), out, limit)
        elif rt.kind in ("array", "vector"):
            es = self.m.sizeof(rt.elem)
            for i in range(rt.n):
                self.leaves(rt.elem, base + i * es, out, limit)
        else:
            out.append((base, rt))
        return out

    def tile(self, root, n):
        """leaf scalars of the root object lying inside [off, off+n); None if a leaf straddles the range"""
        (rv, rt, off) = root
        try:
            if off < 0 or off + n > self.m.sizeof(rt):
                return None
            lv = self.leaves(rt)
        except IRError:
            return None
        sel = []
        for (o, t) in lv:
            sz = self.m.sizeof(t)
            if o + sz <= off or o >= off + n:
                continue
            if o < off or o + sz > off + n:
                return None
            if t.kind not in ("int", "ptr", "float", "double") or (t.kind == "int" and t.bits not in (8, 16, 32, 64)):
                return None
            sel.append((o - off, t))
        return sel

    def tiled_copy(self, d, s, n):
        rd, rs = self.typed_root(d), self.typed_root(s)
        td = self.tile(rd, n) if rd else None
        ts = self.tile(rs, n) if rs else None
        if td is None and ts is None:
            return None
        if td is not None and ts is not None:
            # use the finer of the two tilings only if they agree on boundaries; else prefer destination
            kd = [(o, self.m.sizeof(t)) for o, t in td]
            ks = [(o, self.m.sizeof(t)) for o, t in ts]
            tl = td if kd == ks or len(td) >= len(ts) else ts
        else:
            tl = td or ts
        if not tl or len(tl) > 48:
            return None
        dv, sv = self.val(d), self.val(s)
        out = []
        tmps = []
        for (o, t) in tl:
            ct = self.ctype(t)
            self.tmpn += 1
            tn = "vp_t%d" % self.tmpn
            self.decls.append("%s %s;" % (ct, tn))
            out.append("%s = *(%s*)((u8*)%s + %d);" % (tn, ct, sv, o))
            tmps.append((tn, ct, o))
        for (tn, ct, o) in tmps:
            out.append("*(%s*)((u8*)%s + %d) = %s;" % (ct, dv, o, tn))
        return out

    def tiled_set(self, d, c, n):
        rd = self.typed_root(d)
        tl = self.tile(rd, n) if rd else None
        if not tl or len(tl) > 48:
            return None
        c &= 0xff
        dv = self.val(d)
        out = []
        for (o, t) in tl:
            ct = self.ctype(t)
            if t.kind == "int":
                val = int.from_bytes(bytes([c]) * (t.bits // 8), "little")
                out.append("*(%s*)((u8*)%s + %d) = %dULL;" % (ct, dv, o, val))
            elif c == 0:
                out.append("*(%s*)((u8*)%s + %d) = 0;" % (ct, dv, o))
            else:
                return None
        return out

    def leaf_type(self, t):
        while t is not None and t.kind in ("named", "struct", "array"):
            if self.m.is_opaque(t):
                return None
            rt = self.m.resolve(t)
            if rt.kind == "struct":
                if not rt.fields:
                    return None
                t = rt.fields[0]
            elif rt.kind == "array":
                t = rt.elem
            else:
                t = rt
        if t is not None and t.kind == "int" and t.bits == 8:
            return None
        return t

    def address_taken(self):
        if getattr(self, "_addr_taken", None) is not None:
            return self._addr_taken
        at = set()

        def scan(v):
            if v is None:
                return
            if v.kind == "global" and v.v in self.m.funcs:
                at.add(v.v)
            if v.ops:
                for o in v.ops:
                    scan(o)
        for g in self.m.globals.values():
            scan(g.init)
        for f in self.m.funcs.values():
            for ins in f.instrs():
                for o in ins.ops:
                    scan(o)
        self._addr_taken = at
        return at

    def first_field_chain(self, t):
        """struct types reachable by repeatedly taking field 0 (base-class prefix chain)"""
        out = []
        seen = 0
        while t is not None and seen < 12:
            seen += 1
            if t.kind == "named":
                out.append(t.key())
                if self.m.is_opaque(t):
                    break
                t = self.m.types[t.name]
                continue
            if t.kind == "struct":
                out.append(t.key())
                if not t.fields:
                    break
                t = t.fields[0]
                continue
            break
        return out

    def vtable_slots(self):
        """function name -> set of slot indices (relative to the address point) in vtables of the module"""
        if getattr(self, "_vslots", None) is not None:
            return self._vslots
        slots = {}
        for g in self.m.globals.values():
            if not g.name.startswith("_ZTV") or g.init is None or g.init.kind != "struct":
                continue
            for arr in g.init.ops:
                if arr.kind != "array":
                    continue
                for i, o in enumerate(arr.ops):
                    fn = self._strip_global(o)
                    if fn in self.m.funcs:
                        slots.setdefault(fn, set()).add(i - 2)
        self._vslots = slots
        return slots

    def call_slot(self, callee):
        """slot index if callee value is 'load (gep vptr, k)' with vptr loaded from an object"""
        if callee.kind != "local":
            return None
        d = self.defs.get(callee.v)
        if d is None or d.op != "load":
            return None
        p = d.ops[0]
        if p.kind != "local":
            return None
        dp = self.defs.get(p.v)
        if dp is None:
            return None
        if dp.op == "load":
            return 0
        if dp.op == "getelementptr" and len(dp.ops) == 2 and dp.ops[1].kind == "int":
            b = dp.ops[0]
            if b.kind == "local" and self.defs.get(b.v) is not None and self.defs[b.v].op == "load":
                return dp.ops[1].v
        return None

    def indirect_candidates(self, fty, args, callee=None):
        def kind(t):
            if t.kind == "ptr":
                return "p"
            if t.kind in ("named", "struct", "array", "vector"):
                return "agg%d" % self.m.sizeof(t)
            return t.key()
        want = (kind(fty.ret), tuple(kind(a.ty) for a in args))
        slot = self.call_slot(callee) if callee is not None else None
        vs = self.vtable_slots()
        out = []
        for n in sorted(self.address_taken()):
            f = self.m.funcs[n]
            if f.is_decl or n not in self.live_funcs or f.vararg:
                continue
            if len(f.params) != len(args):
                continue
            if (kind(f.ret), tuple(kind(p[0]) for p in f.params)) != want:
                continue
            if slot is not None:
                # virtual call: only functions sitting at that slot of some vtable, whose 'this' class is
                # related (by base-class prefix) to the static class at the call site
                if n not in vs or slot not in vs[n]:
                    continue
                if args and args[0].ty.kind == "ptr" and f.params[0][0].kind == "ptr":
                    a = self.first_field_chain(args[0].ty.elem)
                    b = self.first_field_chain(f.params[0][0].elem)
                    if a and b and a[0] not in b and b[0] not in a:
                        continue
            out.append(f)
        return out

    def ptr_origin_type(self, v):
        """element type behind an i8* value that is a bitcast of T* (looking through the defining instr)"""
        if v.kind == "local":
            d = self.defs.get(v.v)
            if d is not None and d.op == "bitcast" and d.ops[0].ty.kind == "ptr":
                et = d.ops[0].ty.elem
                if et.kind == "int" and et.bits == 8:
                    return None
                if et.kind == "func" or self.m.is_opaque(et):
                    return None
                return et
            if d is not None and d.op == "getelementptr" and False:
                return None
        if v.kind == "cexpr" and v.v == "bitcast" and v.ops[0].ty.kind == "ptr":
            et = v.ops[0].ty.elem
            if et.kind in ("func",) or (et.kind == "int" and et.bits == 8) or self.m.is_opaque(et):
                return None
            return et
        return None

    def intrinsic(self, ins, name, res):
        a = ins.ops
        V = self.val
        base = name.split(".")
        n1 = base[1]
        if n1 in ("lifetime", "dbg", "experimental", "invariant", "donothing", "prefetch", "stackprotector", "var"):
            return []
        if n1 == "assume":
            return []
        if n1 in ("memcpy", "memmove") and a[2].kind == "int" and a[2].v <= 256:
            r = self.tiled_copy(a[0], a[1], a[2].v)
            if r is not None:
                return r
        if n1 == "memset" and a[2].kind == "int" and a[2].v <= 256 and a[1].kind == "int":
            r = self.tiled_set(a[0], a[1].v, a[2].v)
            if r is not None:
                return r
        if n1 in ("memcpy", "memmove"):
            d, s, n = a[0], a[1], a[2]
            td, ts = self.ptr_origin_type(d), self.ptr_origin_type(s)
            et = None
            if td is not None and ts is not None and td.key() == ts.key():
                et = td
            elif n.kind == "int" and (td is not None) != (ts is not None) and self.m.sizeof(td or ts) == n.v:
                et = td or ts
            else:
                ld, ls = self.leaf_type(td), self.leaf_type(ts)
                if ld is not None and ls is not None and ld.key() == ls.key():
                    et = ld
                elif (ld is None) != (ls is None) and n.kind == "int":
                    et = ld or ls
            if et is not None:
                sz = self.m.sizeof(et)
                ct = self.ctype(et)
                if n.kind == "int" and n.v == sz:
                    return ["*(%s*)%s = *(%s*)%s;" % (ct, V(d), ct, V(s))]
                if n.kind != "int" or n.v % sz == 0:
                    if n.kind == "int" and n.v // sz <= 4:
                        self.tmpn += 1
                        tn = "vp_m%d" % self.tmpn
                        k = n.v // sz
                        self.decls.append("%s %s[%d];" % (ct, tn, k))
                        return ["%s[%d] = ((%s*)%s)[%d];" % (tn, i, ct, V(s), i) for i in range(k)] + \
                               ["((%s*)%s)[%d] = %s[%d];" % (ct, V(d), i, tn, i) for i in range(k)]
                    self.copy_helpers[ct] = sz
                    return ["vp_copy_%s((%s*)%s, (%s*)%s, %s);" % (san(ct), ct, V(d), ct, V(s), V(n))]
            if n.kind == "int":
                return ["%s((void*)%s, (const void*)%s, %s);" % (n1, V(d), V(s), V(n))]
            return ["%s((u8*)%s, (const u8*)%s, %s);" % ("vp_memcpy" if n1 == "memcpy" else "vp_memmove", V(d), V(s), V(n))]
        if n1 == "memset":
            d, c, n = a[0], a[1], a[2]
            et = self.ptr_origin_type(d)
            if et is not None and c.kind == "int" and c.v == 0 and et.kind in ("int", "ptr", "float", "double"):
                sz = self.m.sizeof(et)
                ct = self.ctype(et)
                if n.kind != "int" or n.v % sz == 0:
                    self.zero_helpers[ct] = sz
                    return ["vp_zero_%s((%s*)%s, %s);" % (san(ct), ct, V(d), V(n))]
            if n.kind == "int":
                return ["memset((void*)%s, %s, %s);" % (V(d), V(c), V(n))]
            return ["vp_memset((u8*)%s, %s, %s);" % (V(d), V(c), V(n))]
        if n1 == "trap":
            return ["VP_TRAP();"]
        if n1 == "eh" and base[2] == "typeid":
            g = self._strip_global(a[0])
            if g is None:
                return ["%s = VP_TID_CATCHALL;" % res]
            return ["%s = VP_TID_%s;" % (res, san(g[4:]))]
        if n1 == "expect":
            return ["%s = %s;" % (res, V(a[0]))]
        ty = ins.ty
        sfx = "f" if ty.kind == "float" else ""
        if n1 in ("fabs", "sqrt", "floor", "ceil", "trunc", "round", "rint", "nearbyint", "sin", "cos", "exp", "log", "exp2", "log2", "log10"):
            if ty.kind == "vector":
                sf = "f" if ty.elem.kind == "float" else ""
                return self.vec_elementwise(ins, lambda x: "%s%s(%s)" % (n1, sf, x))
            return ["%s = %s%s(%s);" % (res, n1, sfx, V(a[0]))]
        if n1 in ("pow", "copysign", "fmod"):
            return ["%s = %s%s(%s, %s);" % (res, n1, sfx, V(a[0]), V(a[1]))]
        if n1 in ("minnum", "maxnum"):
            fn = "fmin" if n1 == "minnum" else "fmax"
            return ["%s = %s%s(%s, %s);" % (res, fn, sfx, V(a[0]), V(a[1]))]
        if n1 == "fmuladd" or n1 == "fma":
            return ["%s = (%s)(%s * %s) + %s;" % (res, self.ctype(ty), V(a[0]), V(a[1]), V(a[2]))]
        if n1 in ("umax", "umin", "smax", "smin"):
            if ty.kind == "vector":
                raise IRError("vector minmax")
            bits = ty.bits
            x, y = V(a[0]), V(a[1])
            if n1[0] == "s":
                cx, cy = self.sext_expr(x, bits), self.sext_expr(y, bits)
            else:
                cx, cy = x, y
            c = ">" if n1.endswith("max") else "<"
            return ["%s = (%s %s %s) ? %s : %s;" % (res, cx, c, cy, x, y)]
        if n1 == "abs":
            bits = ty.bits
            x = V(a[0])
            sx = self.sext_expr(x, bits)
            return ["%s = (%s)(%s < 0 ? (%s)(0 - %s) : %s);" % (res, self.ctype(ty), sx, self.ctype(ty), x, x)]
        if n1 in ("umul", "uadd", "usub", "sadd", "ssub", "smul") and base[2] == "with":
            bits = a[0].ty.bits
            x, y = V(a[0]), V(a[1])
            ct = self.ctype(a[0].ty)
            if bits not in (32, 64):
                raise IRError("with.overflow width")
            big = "u128" if n1[0] == "u" else "i128"
            opc = {"mul": "*", "add": "+", "sub": "-"}[n1[1:]]
            if n1[0] == "u":
                full = "((u128)%s %s (u128)%s)" % (x, opc, y)
                ov = "(%s >> %d != 0)" % (full, bits)
            else:
                sx, sy = self.sext_expr(x, bits), self.sext_expr(y, bits)
                full = "((i128)%s %s (i128)%s)" % (sx, opc, sy)
                ov = "(%s != (i128)(%s)%s)" % (full, "i32" if bits == 32 else "i64", "(%s)%s" % (ct, full))
            return ["%s.f0 = (%s)%s;" % (res, ct, full), "%s.f1 = (u8)%s;" % (res, ov)]
        if n1 in ("ctlz", "cttz", "ctpop", "bswap"):
            bits = ty.bits
            return ["%s = vp_%s%d(%s);" % (res, n1, bits, V(a[0]))]
        if n1 == "x86":
            nm = "_".join(base[2:])
            if nm in ("sse2_pause",):
                return []
            if nm in ("sse_ldmxcsr", "sse_stmxcsr"):
                return []
            if nm == "rdtsc":
                return ["%s = nondet_u64();" % res]
            if nm in ("sse_rcp_ss", "sse_rsqrt_ss"):
                r = res
                x = V(a[0])
                return ["%s = %s;" % (r, x), "%s.a[0] = vp_%s(%s.a[0]);" % (r, nm, x)]
            raise IRError("x86 intrinsic %s" % name)
        if n1 == "is" and base[2] == "constant":
            return ["%s = 0;" % res]
        if n1 == "objectsize":
            return ["%s = %s;" % (res, "(u64)-1" if True else "0")]
        if n1 in ("va_start", "va_end", "va_copy"):
            raise IRError("varargs in defined function")
        if n1 == "stacksave":
            return ["%s = 0;" % res]
        if n1 == "stackrestore":
            return []
        if n1 == "fshl" or n1 == "fshr":
            bits = ty.bits
            x, y, z = V(a[0]), V(a[1]), V(a[2])
            ct = self.ctype(ty)
            if n1 == "fshl":
                return ["%s = (%s)((%s %% %d) ? ((%s << (%s %% %d)) | (%s >> (%d - (%s %% %d)))) : %s);" % (res, ct, z, bits, x, z, bits, y, bits, z, bits, x)]
            return ["%s = (%s)((%s %% %d) ? ((%s << (%d - (%s %% %d))) | (%s >> (%s %% %d))) : %s);" % (res, ct, z, bits, x, bits, z, bits, y, z, bits, y)]
        raise IRError("intrinsic %s" % name)


def translate(ll_path, entries, model_names, opaque=(), race=False, extra_defs=""):
    mod = parse_file(ll_path)
    g = CGen(mod, opaque=opaque, shared_race=race)
    if entries is None:
        entries = [n for n, f in mod.funcs.items() if n.startswith("vp_") and not f.is_decl]
    txt = g.generate(entries, model_names, extra_defs)
    return txt, g


def model_names_from(path):
    names = set()
    import glob
    lines = []
    for p in glob.glob(os.path.join(os.path.dirname(path), "*.c")):
        lines.extend(open(p).readlines())
    for line in lines:
        mo = re.match(r"\s*#if(?:def)?\s+(?:defined\()?NEED_(ir_\w+)", line)
        if mo:
            names.add(mo.group(1))
        for mo in re.finditer(r"NEED_(ir_\w+)", line):
            names.add(mo.group(1))
    return names


if __name__ == "__main__":
    here = os.path.dirname(os.path.abspath(__file__))
    mn = model_names_from(os.path.join(here, "models", "models.c"))
    txt, g = translate(sys.argv[1], None, mn)
    open(sys.argv[2], "w").write(txt)
    if g.missing:
        print("unmodelled externals:", g.missing, file=sys.stderr)
