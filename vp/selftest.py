#!/usr/bin/env python3
"""setup_cmd: nothing to build (pure python + installed tools); verify the tool chain is present and that the path engine
still decides a small sample correctly (one entry that holds, one with a planted violation, exceptions, heap)."""
import shutil, sys, subprocess, os, tempfile, json
HERE = os.path.dirname(os.path.abspath(__file__))
need = ["clang++-14", "cbmc", "goto-cc", "z3", "g++", "gcc"]
missing = [t for t in need if shutil.which(t) is None]
if missing:
    print("missing tools:", missing); sys.exit(1)
try:
    import z3  # noqa
except Exception as e:
    print("z3 python binding missing:", e); sys.exit(1)
d = tempfile.mkdtemp(prefix="vp_self_")
try:
    ll = os.path.join(d, "s.ll")
    r = subprocess.run(["clang++-14", "-std=c++17", "-O1", "-fno-vectorize", "-fno-slp-vectorize", "-fno-unroll-loops", "-D_GLIBCXX_ASSERTIONS",
                        "-I" + os.path.join(os.path.dirname(HERE), "harness"), "-S", "-emit-llvm", os.path.join(HERE, "selfcheck", "engine_sample.cpp"), "-o", ll], capture_output=True, text=True)
    if r.returncode != 0:
        print("clang failed on the engine sample:", r.stderr[-500:]); sys.exit(1)
    want = {"vp_main_t1": ("held", None), "vp_main_t2": ("violated", "VP:x is not 200")}
    for entry, (status, label) in want.items():
        out = os.path.join(d, entry + ".json")
        subprocess.run([sys.executable, os.path.join(HERE, "llpath.py"), ll, entry, "--json", out, "--wall", "60"], capture_output=True, text=True)
        res = json.load(open(out))
        if res["status"] != status or (label and label not in [v["label"] for v in res["violations"]]) or "end" not in res["reach"]:
            print("path engine self-check failed on", entry, res["status"], res["note"]); sys.exit(1)
finally:
    shutil.rmtree(d, ignore_errors=True)
print("vp selftest ok")
