#!/usr/bin/env python3
"""setup_cmd: nothing to build (pure python + installed tools); verify the tool chain is present."""
import shutil, sys, subprocess
need = ["clang++-14", "cbmc", "goto-cc", "z3", "g++", "gcc"]
missing = [t for t in need if shutil.which(t) is None]
if missing:
    print("missing tools:", missing); sys.exit(1)
try:
    import z3  # noqa
except Exception as e:
    print("z3 python binding missing:", e); sys.exit(1)
print("vp selftest ok")
