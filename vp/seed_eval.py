#!/usr/bin/env python3
"""Run the registered quick check of each seeded change's property against /repo with the change applied, undo it, and
record in seeded/<id>/meta.json which obligation caught it.  Usage: python3-vt vp/seed_eval.py [seed-id ...]
(never run while another check is using /repo: the working tree is modified temporarily)"""
import os, sys, json, subprocess, re, shutil
ROOT = os.path.dirname(os.path.dirname(os.path.abspath(__file__)))
REPO = "/repo"
SCRATCH_EV = os.path.join(os.environ.get("TMPDIR", "/tmp"), "vp_seed_eval_evidence")
CHANGE = {
    "C01-3A": ("parallel_in_blocks_of: '>=' instead of '>' when clipping the last block: an exactly full last block becomes empty", "n > 0 with n % BLOCK_SIZE == 0"),
    "C01-3B": ("enkiTS TryRunTask (split branch): running count decremented before the kept piece is executed: missing join", ">= 2 threads, n >= 2, a worker still inside its first piece when the others finish"),
    "C02-3A": ("~AsyncTask skips wait() when finished() is already true: the scheduler's last decrement lands in freed storage", "internal backend, >= 2 threads, task object released right after finished()"),
    "C02-3B": ("schedule_internal's LocalTask holds the closure by reference (copy-paste from parallel_for_internal): runs from a dead stack slot", "internal backend, task runs after schedule() returned"),
    "C03-2": ("AsyncLoop::start() sets shouldBeRunning without runningMutex: lost wake-up", "start() inside the window between the loop thread's predicate check and its wait"),
    "C08-2": ("IntrusivePtr move assignment guards on equal pointees instead of self: a reference is leaked when both handles alias", "move-assign between two handles of the same object (or self-move)"),
    "C09-2": ("Optional move assignment from an empty source clears the flag without destroying the payload", "engaged destination, empty rvalue source, non-trivial T"),
    "C10-2": ("FlatMap::erase uses std::partition instead of std::stable_partition: survivors reordered", ">= 3 entries, erased key followed by >= 2 entries"),
    "C12-2": ("TransactionalValue::update moves queuedValue into currentValue after releasing the mutex", "producer assignment between the consumer's unlock and its move"),
    "C13-3A": ("initTaskingSystem keeps the first handle ('initialise once' guard): re-initialisation ignored", "second initTaskingSystem(m)"),
    "C13-3B": ("internal backend starts one thread more than requested (Initialize(n+1), count reported minus one)", "any n: n workers + caller run bodies"),
    "C14-2": ("aligned_allocator::allocate compares the (wrapped) byte count with max_size(): overflow no longer rejected", "n > max_size() with sizeof(T) > 1"),
    "C16-3A": ("consumeComment skips two characters after '<!' when the first is '-': steps over the terminating NUL for a file ending in '<!-'", "input ending in '<!-'"),
    "C16-3B": ("parseString keeps the previous value for an empty quoted string", "an empty property value after a non-empty one"),
    "C18-3A": ("tokenize drops one-character tokens that are followed by a delimiter (fnd > prev + 1)", "a 1-character token not at the end"),
    "C18-3B": ("FileName::name() treats a leading dot of the last component as part of the name (end <= start)", "dot-files"),
    "C11-4A": ("AbstractArray::at bounds check rewritten as offset > size()-1: never throws on an empty array", "at(0) on a default-constructed / reset / zero-size wrapper"),
    "C11-4B": ("FixedArray::operator=(std::vector) copies size() bytes instead of size()*sizeof(T)", "vector assignment with sizeof(T) > 1"),
    "C15-4A": ("BufferReader::read rejects a zero-length read at the end of the data (>= instead of >)", "stream ending in an empty string / vector<string> with empty last element"),
    "C15-4B": ("vector<T> operator>> appends (reserve + push_back) instead of replacing the target's contents", "reading into a non-empty vector"),
    "C09-4A": ("Optional operator== compares the payloads whenever both sides agree on has_value(): two empty optionals compare dead storage", "both operands empty"),
    "C09-4B": ("Any::handle::isSameImpl uses static_cast instead of dynamic_cast: cross-type comparison reads the other payload as T", "two engaged Any of different types compared"),
    "C04-5": ("std::less<vec_t<T,4>>: last tie-break guarded by y equality instead of z equality", "x,y equal, a.z > b.z, a.w < b.w"),
    "C05-5": ("range_t::extend(range) re-uses the point overload twice: extending by an empty range yields the infinite range", "argument empty/inverted"),
    "C06-5": ("slerp negates a for a negative dot product but keeps the old (negative) dot for the weights", "dot(a,b) < 0, 0 < t < 1"),
    "C07-5": ("divRoundUp rewritten as (a-1)/b+1: wrong for a == 0", "a == 0, b >= 2"),
    "C08-5": ("IntrusivePtr move constructor writes 'input = nullptr' (operator=(T*) -> refDec) instead of input.ptr = nullptr", "any move construction from a non-null handle"),
    "C14-5": ("non-TBB alignedMalloc rounds the size up to the alignment with a wrapping add: sizes near SIZE_MAX become 0-byte blocks", "size > SIZE_MAX - align + 1"),
    "C17-5": ("IndexShiftedArray3D::get drops the '+ size()' before the modulo: negative shifts clamp instead of wrapping", "negative shift component, query in the first |shift| cells"),
    "C20-5": ("single-channel writeImage takes component N_COMP-1 (= 0) instead of PIXEL_COMP-1: writePGM emits the red byte", "PGM, pixel whose low byte differs from its high byte"),
    "C19-2": ("Observable::removeObserver erases from the found element to the end (find instead of remove)", ">= 2 observers, an earlier one destroyed, then the observable destroyed before a later one"),
    "C10-6": ("FlatMap::erase as values.erase(remove_if(...)) with the single-iterator overload: erasing an absent key erases end() (drops the last pair / UB)", "erase of a key that is absent at that moment"),
    "C12-6": ("TransactionalValue: newValue made atomic and update() clears it with exchange() before taking the mutex (flag consumed outside the critical section; no data race)", "consumer update() inside a second assignment while the first flag is unconsumed, then another update()"),
    "C13-6": ("numTaskingThreads() returns a value cached in the handle constructor; under TBB the old global_control is still alive then (minimum of live controls)", "TBB back end, re-initialisation that raises the count"),
    "C15-6": ("BufferReader::read guard rewritten with end(): a zero-length read exactly at the end throws", "stream ending in an empty string"),
    "C16-6": ("xml makeString returns std::string(begin,end) and drops the begin>end guard: std::length_error escapes instead of std::runtime_error", "content of blanks followed by \\v or \\f only (skipWhites does not skip them, isspace trims them)"),
    "C17-6": ("longIndex computes the slice stride dims.x*dims.y in 32-bit int", "x*y >= 2^31 and z >= 1"),
    "C18-6": ("FileName::ext()/dropExt() treat a leading dot of the last component as 'hidden file, no extension' while name()/setExt() keep the old rule", "last component starts with '.' and has no other dot"),
    "C19-6": ("TimeStamp::nextValue() as ++global; return global; (two atomic operations): two threads can receive the same stamp", "two threads inside nextValue(), one increment between the other's increment and read"),
    "C20-6": ("writeImage row buffer became a grow-only static thread_local vector and fwrite uses out.size(): rows written at the widest width seen so far", "same thread writes a narrower image after a wider one in the same format"),
    "C04-7": ("std::less<vec_t<T,4>> flattened to one term per component; the w term is guarded by y,z equality only (x equality missing)", "a.x > b.x, y and z tie, a.w < b.w"),
    "C06-7": ("quaternion-from-matrix, last (vz.z dominant) branch: real part computed as (vy.x - vx.y)*s - the inverse rotation", "rotation by more than 120 degrees about an axis closest to +-z, not exactly 180"),
    "C07-7": ("SIMD rcp Newton step rewritten as (r+r) - (r*r)*a: r*r overflows / goes denormal for |x| < 2^-64 or > 2^65", "tiny or huge arguments; rcp_safe(0) returns -inf"),
    "C08-7": ("IntrusivePtr::operator=(T*) releases the old reference before taking the new one", "sole owner assigned its own pointee (h = h.ptr) or an object kept alive only through the old one"),
    "C09-7": ("Optional converting assignments from Optional<U>: empty source only clears the flag (payload never destroyed)", "engaged Optional<T> assigned from an empty Optional<U>, U != T"),
    "C11-7": ("OwnedArray::resize re-seats the base pointer only when the vector reallocated: after resize(0) (pointer nulled, capacity kept) a resize within capacity leaves data() == nullptr with size() == n", "resize(n); resize(0); resize(m <= n)"),
    "C14-7": ("TBB alignedMalloc fast path: scalable_malloc(size) when size is a multiple of the alignment", "TBB configuration, alignment >= 128, size > 1024 and a multiple of the alignment"),
    "C01-7": ("enkiTS SplitAndAddTask pipe-full fallback drops the chunk it could not queue", "internal back end, caller's 256-slot pipe full: >= ~46 threads and nested parallel_for"),
    "C03-6": ("AsyncLoop loop thread: the re-check after publishing insideLoopBody tests threadShouldBeAlive instead of shouldBeRunning", "stop() runs completely between the loop thread's running-flag check and its insideLoopBody store (point A)"),
    "C02-8": ("AsyncTask::get() returns std::move(retValue): a second get() yields a moved-from value", "heap-owning result type and get() called twice"),
    "C05-8": ("touchingOrOverlapping() as a corner-containment test (sufficient only): plus-shaped crossings and anti-diagonal overlaps report false", "boxes whose extents differ per axis, no corner of one inside the other"),
    "C15-8": ("FixedBufferWriter::reserve moves the cursor before the capacity check: a rejected reservation leaves the cursor past the end; cursor+size may wrap", "over-capacity reserve, exception caught, writer used again"),
    "C18-8": ("ArgumentsParser::parseAndRemove increments the index after a removal as well: the argument shifted into the slot is never offered", "two consumable arguments/groups directly adjacent"),
    "C20-2": ("writePFM<vec3fa> walks the pixels with a stride of 3 floats instead of 4", "vec3fa images wider than one pixel"),
}


def main():
    ids = sys.argv[1:] or sorted(d for d in os.listdir(os.path.join(ROOT, "seeded")) if os.path.isdir(os.path.join(ROOT, "seeded", d)))
    if subprocess.run(["git", "-C", REPO, "status", "--porcelain"], capture_output=True, text=True).stdout.strip():
        print("refusing: /repo working tree is not clean")
        return 2
    for sid in ids:
        d = os.path.join(ROOT, "seeded", sid)
        pid = sid.split("-")[0]
        patch = os.path.join(d, "patch.diff")
        mp = os.path.join(d, "meta.json")
        meta = json.load(open(mp)) if os.path.exists(mp) else {"property": pid, "author": "independent sub-agent given only the property text and a scratch worktree",
                                                              "confirmed": {"how": "scratch worktree: cmake+ninja build, ctest, rkcommon_test_suite with the patch applied; demo.cpp (ASan/UBSan) fails with and passes without the patch", "result": "build=0 ctest=0 (16/16) demo_with_patch=1 demo_without_patch=0"}}
        if sid in CHANGE:
            meta["change"], meta["needs_to_manifest"] = CHANGE[sid]
        r = subprocess.run(["git", "-C", REPO, "apply", patch], capture_output=True, text=True)
        if r.returncode != 0:
            meta["detected_by"] = {"error": "patch does not apply to the current tree: " + r.stderr[-200:]}
            json.dump(meta, open(mp, "w"), indent=1)
            print(sid, "PATCH-FAILS")
            continue
        try:
            # evidence of a run on a deliberately broken tree never goes to /verif/evidence (see check.py)
            env = dict(os.environ, VP_EVIDENCE_DIR=SCRATCH_EV)
            p = subprocess.run(["python3-vt", os.path.join(ROOT, "vp", "check.py"), pid, "--tier", "quick"], capture_output=True, text=True, cwd=ROOT, timeout=3600, env=env)
            out = p.stdout
            rc = p.returncode
        finally:
            subprocess.run(["git", "-C", REPO, "checkout", "--", "."])
        obs = [re.sub(r"\s+", " ", l.strip())[:300] for l in out.splitlines() if l.strip().startswith("obligation:")]
        viol = [l for l in out.splitlines() if l.startswith("VIOLATION")]
        meta["detected_by"] = {"tier": "quick", "exit": rc, "violation_lines": len(viol), "first_obligations": obs[:3]} if (rc == 1 and viol) else None
        meta["last_eval"] = {"exit": rc, "summary": [l for l in out.splitlines() if " tier=quick " in l][-1:]}
        json.dump(meta, open(mp, "w"), indent=1)
        print(sid, "DETECTED" if meta["detected_by"] else "MISSED rc=%d" % rc, (obs[:1] or [""])[0][:160])
    for f in os.listdir(os.path.join(ROOT, "replays")):
        os.unlink(os.path.join(ROOT, "replays", f))
    shutil.rmtree(SCRATCH_EV, ignore_errors=True)
    return 0


if __name__ == "__main__":
    sys.exit(main())
