/* libstdc++ std::string out-of-line members (DESIGN 2.3), written over the real object layout
   { char *p; size_t n; union { char sso[16]; size_t cap; } }.  Inline members stay real IR. */
struct vp_str { char *p; u64 n; union { char sso[16]; u64 cap; } u; };
#define VP_STR_MAX ((u64)0x3fffffffffffffffull)
static inline u64 vp_str_capacity(struct vp_str *s){ return s->p == s->u.sso ? 15 : s->u.cap; }
static inline void vp_str_dispose(struct vp_str *s){ if (s->p != s->u.sso) free(s->p); }
static inline void vp_str_setlen(struct vp_str *s, u64 n){ s->n = n; VP_CHK(s->p + n, 1); s->p[n] = 0; }
static char *vp_str_create(u64 *capp, u64 old)
{
  u64 cap = *capp;
  if (cap > VP_STR_MAX) { vp_throw(vp_alloc(16), VP_TID_St12length_error); return 0; }
  if (cap > old && cap < 2 * old) { cap = 2 * old; if (cap > VP_STR_MAX) cap = VP_STR_MAX; }
  *capp = cap;
  return (char*)vp_alloc(cap + 1);
}
static void vp_str_copy(char *d, const char *s, u64 n){ for (u64 i = 0; i < n; i++) { VP_CHK(d + i, 1); VP_CHK(s + i, 1); d[i] = s[i]; } }
static void vp_str_move(char *d, const char *s, u64 n){ if ((u64)d <= (u64)s) { for (u64 i = 0; i < n; i++) { VP_CHK(d + i, 1); VP_CHK(s + i, 1); d[i] = s[i]; } } else { for (u64 i = n; i > 0; i--) { VP_CHK(d + i - 1, 1); VP_CHK(s + i - 1, 1); d[i-1] = s[i-1]; } } }
static void vp_str_mutate(struct vp_str *s, u64 pos, u64 len1, const char *src, u64 len2)
{
  u64 how = s->n - pos - len1;
  u64 ncap = s->n + len2 - len1;
  char *r = vp_str_create(&ncap, vp_str_capacity(s));
  if (vp_exc.active) return;
  if (pos) vp_str_copy(r, s->p, pos);
  if (src && len2) vp_str_copy(r + pos, src, len2);
  if (how) vp_str_copy(r + pos + len2, s->p + pos + len1, how);
  vp_str_dispose(s);
  s->p = r; s->u.cap = ncap;
}
#ifdef NEED_ir__ZNSt7__cxx1112basic_stringIcSt11char_traitsIcESaIcEE9_M_createERmm
void *ir__ZNSt7__cxx1112basic_stringIcSt11char_traitsIcESaIcEE9_M_createERmm(void *self, void *capp, u64 old){ return vp_str_create((u64*)capp, old); }
#endif
#ifdef NEED_ir__ZNSt7__cxx1112basic_stringIcSt11char_traitsIcESaIcEE9_M_assignERKS4_
void ir__ZNSt7__cxx1112basic_stringIcSt11char_traitsIcESaIcEE9_M_assignERKS4_(void *self, void *other)
{
  struct vp_str *s = (struct vp_str*)self, *o = (struct vp_str*)other;
  if (s == o) return;
  u64 n = o->n, cap = vp_str_capacity(s);
  if (n > cap) { u64 nc = n; char *r = vp_str_create(&nc, cap); if (vp_exc.active) return; vp_str_dispose(s); s->p = r; s->u.cap = nc; }
  if (n) vp_str_copy(s->p, o->p, n);
  vp_str_setlen(s, n);
}
#endif
#ifdef NEED_ir__ZNSt7__cxx1112basic_stringIcSt11char_traitsIcESaIcEE9_M_appendEPKcm
void *ir__ZNSt7__cxx1112basic_stringIcSt11char_traitsIcESaIcEE9_M_appendEPKcm(void *self, void *src, u64 n)
{
  struct vp_str *s = (struct vp_str*)self;
  u64 len = n + s->n;
  if (len <= vp_str_capacity(s)) { if (n) vp_str_copy(s->p + s->n, (const char*)src, n); }
  else { vp_str_mutate(s, s->n, 0, (const char*)src, n); if (vp_exc.active) return self; }
  vp_str_setlen(s, len);
  return self;
}
#endif
#ifdef NEED_ir__ZNSt7__cxx1112basic_stringIcSt11char_traitsIcESaIcEE10_M_replaceEmmPKcm
void *ir__ZNSt7__cxx1112basic_stringIcSt11char_traitsIcESaIcEE10_M_replaceEmmPKcm(void *self, u64 pos, u64 len1, void *src, u64 len2)
{
  struct vp_str *s = (struct vp_str*)self;
  if (len2 > VP_STR_MAX - (s->n - len1)) { vp_throw(vp_alloc(16), VP_TID_St12length_error); return self; }
  u64 nsz = s->n + len2 - len1;
  if (nsz <= vp_str_capacity(s)) {
    char *p = s->p + pos; u64 how = s->n - pos - len1;
    __CPROVER_assert(!((u64)src >= (u64)s->p && (u64)src <= (u64)s->p + s->n) || len2 == 0, "HARNESS:string model: _M_replace with a source aliasing the string is not modelled");
    if (how && len1 != len2) vp_str_move(p + len2, p + len1, how);
    if (len2) vp_str_copy(p, (const char*)src, len2);
  } else { vp_str_mutate(s, pos, len1, (const char*)src, len2); if (vp_exc.active) return self; }
  vp_str_setlen(s, nsz);
  return self;
}
#endif
#ifdef NEED_ir__ZNSt7__cxx1112basic_stringIcSt11char_traitsIcESaIcEE14_M_replace_auxEmmmc
void *ir__ZNSt7__cxx1112basic_stringIcSt11char_traitsIcESaIcEE14_M_replace_auxEmmmc(void *self, u64 pos, u64 n1, u64 n2, u8 c)
{
  struct vp_str *s = (struct vp_str*)self;
  if (n2 > VP_STR_MAX - (s->n - n1)) { vp_throw(vp_alloc(16), VP_TID_St12length_error); return self; }
  u64 nsz = s->n + n2 - n1;
  if (nsz <= vp_str_capacity(s)) { char *p = s->p + pos; u64 how = s->n - pos - n1; if (how && n1 != n2) vp_str_move(p + n2, p + n1, how); }
  else { vp_str_mutate(s, pos, n1, 0, n2); if (vp_exc.active) return self; }
  for (u64 i = 0; i < n2; i++) { VP_CHK(s->p + pos + i, 1); s->p[pos + i] = (char)c; }
  vp_str_setlen(s, nsz);
  return self;
}
#endif
#ifdef NEED_ir__ZNSt7__cxx1112basic_stringIcSt11char_traitsIcESaIcEE6resizeEmc
void ir__ZNSt7__cxx1112basic_stringIcSt11char_traitsIcESaIcEE6resizeEmc(void *self, u64 n, u8 c)
{
  struct vp_str *s = (struct vp_str*)self;
  if (n > s->n) {
    u64 add = n - s->n, pos = s->n;
    if (n > VP_STR_MAX) { vp_throw(vp_alloc(16), VP_TID_St12length_error); return; }
    if (n > vp_str_capacity(s)) { vp_str_mutate(s, pos, 0, 0, add); if (vp_exc.active) return; }
    for (u64 i = 0; i < add; i++) { VP_CHK(s->p + pos + i, 1); s->p[pos + i] = (char)c; }
    vp_str_setlen(s, n);
  } else if (n < s->n) vp_str_setlen(s, n);
}
#endif
#ifdef NEED_ir__ZNSt7__cxx1112basic_stringIcSt11char_traitsIcESaIcEE7reserveEm
void ir__ZNSt7__cxx1112basic_stringIcSt11char_traitsIcESaIcEE7reserveEm(void *self, u64 n)
{
  struct vp_str *s = (struct vp_str*)self;
  u64 cap = vp_str_capacity(s);
  if (n <= cap) return;
  u64 nc = n; char *r = vp_str_create(&nc, cap); if (vp_exc.active) return;
  vp_str_copy(r, s->p, s->n + 1);
  vp_str_dispose(s); s->p = r; s->u.cap = nc;
}
#endif
#ifdef NEED_ir__ZNKSt7__cxx1112basic_stringIcSt11char_traitsIcESaIcEE7compareEPKc
u32 ir__ZNKSt7__cxx1112basic_stringIcSt11char_traitsIcESaIcEE7compareEPKc(void *self, void *cs)
{
  struct vp_str *s = (struct vp_str*)self; const u8 *o = (const u8*)cs;
  u64 on = 0; while (o[on]) on++;
  u64 m = s->n < on ? s->n : on;
  for (u64 i = 0; i < m; i++) { u8 a = (u8)s->p[i], b = o[i]; if (a != b) return (u32)((int)a - (int)b); }
  i64 d = (i64)s->n - (i64)on; return (u32)(d > 2147483647 ? 2147483647 : d < -2147483647 - 1 ? -2147483647 - 1 : (int)d);
}
#endif
#ifdef NEED_ir__ZNKSt7__cxx1112basic_stringIcSt11char_traitsIcESaIcEE7compareERKS4_
u32 ir__ZNKSt7__cxx1112basic_stringIcSt11char_traitsIcESaIcEE7compareERKS4_(void *self, void *other)
{
  struct vp_str *s = (struct vp_str*)self, *o = (struct vp_str*)other;
  u64 m = s->n < o->n ? s->n : o->n;
  for (u64 i = 0; i < m; i++) { u8 a = (u8)s->p[i], b = (u8)o->p[i]; if (a != b) return (u32)((int)a - (int)b); }
  i64 d = (i64)s->n - (i64)o->n; return (u32)(d > 2147483647 ? 2147483647 : d < -2147483647 - 1 ? -2147483647 - 1 : (int)d);
}
#endif
#ifdef NEED_ir__ZNKSt7__cxx1112basic_stringIcSt11char_traitsIcESaIcEE4findEcm
u64 ir__ZNKSt7__cxx1112basic_stringIcSt11char_traitsIcESaIcEE4findEcm(void *self, u8 c, u64 pos)
{ struct vp_str *s = (struct vp_str*)self; for (u64 i = pos; i < s->n; i++) if ((u8)s->p[i] == c) return i; return (u64)-1; }
#endif
#ifdef NEED_ir__ZNKSt7__cxx1112basic_stringIcSt11char_traitsIcESaIcEE5rfindEcm
u64 ir__ZNKSt7__cxx1112basic_stringIcSt11char_traitsIcESaIcEE5rfindEcm(void *self, u8 c, u64 pos)
{ struct vp_str *s = (struct vp_str*)self; u64 n = s->n; if (n) { if (--n > pos) n = pos; for (++n; n-- > 0;) if ((u8)s->p[n] == c) return n; } return (u64)-1; }
#endif
#ifdef NEED_ir__ZNKSt7__cxx1112basic_stringIcSt11char_traitsIcESaIcEE4findEPKcmm
u64 ir__ZNKSt7__cxx1112basic_stringIcSt11char_traitsIcESaIcEE4findEPKcmm(void *self, void *pat, u64 pos, u64 n)
{
  struct vp_str *s = (struct vp_str*)self; const char *q = (const char*)pat;
  if (n == 0) return pos <= s->n ? pos : (u64)-1;
  if (pos >= s->n || n > s->n - pos) return (u64)-1;
  for (u64 i = pos; i + n <= s->n; i++) { u64 k = 0; while (k < n && s->p[i + k] == q[k]) k++; if (k == n) return i; }
  return (u64)-1;
}
#endif
#ifdef NEED_ir__ZNKSt7__cxx1112basic_stringIcSt11char_traitsIcESaIcEE13find_first_ofEPKcmm
u64 ir__ZNKSt7__cxx1112basic_stringIcSt11char_traitsIcESaIcEE13find_first_ofEPKcmm(void *self, void *set, u64 pos, u64 n)
{ struct vp_str *s = (struct vp_str*)self; const char *q = (const char*)set; if (n == 0) return (u64)-1;
  for (u64 i = pos; i < s->n; i++) for (u64 k = 0; k < n; k++) if (s->p[i] == q[k]) return i; return (u64)-1; }
#endif
#ifdef NEED_ir__ZNKSt7__cxx1112basic_stringIcSt11char_traitsIcESaIcEE17find_first_not_ofEPKcmm
u64 ir__ZNKSt7__cxx1112basic_stringIcSt11char_traitsIcESaIcEE17find_first_not_ofEPKcmm(void *self, void *set, u64 pos, u64 n)
{ struct vp_str *s = (struct vp_str*)self; const char *q = (const char*)set;
  for (u64 i = pos; i < s->n; i++) { int in = 0; for (u64 k = 0; k < n; k++) if (s->p[i] == q[k]) in = 1; if (!in) return i; } return (u64)-1; }
#endif

/* ---- stdio capture for the image writers (C20): header arguments and payload bytes go to ghost buffers ---- */
#define VP_FILE_MAX 192
struct vp_file_t { int open, closed, nprintf; const char *fmt0; u32 a0, a1; const char *fmt1; u8 data[VP_FILE_MAX]; u64 ndata; int fail_open; };
struct vp_file_t vp_file;
#ifdef NEED_ir_fopen
void *ir_fopen(void *name, void *mode){ if (vp_file.fail_open) return 0; vp_file.open++; return &vp_file; }
#endif
#ifdef NEED_ir_fclose
u32 ir_fclose(void *f){ __CPROVER_assert(f == &vp_file, "MEM:fclose on a stream that was not opened"); vp_file.closed++; return 0; }
#endif
#ifdef NEED_ir_fprintf
u32 ir_fprintf(void *f, void *fmt, ...)
{
  __CPROVER_assert(f == &vp_file && vp_file.closed == 0, "MEM:fprintf on a closed or foreign stream");
  va_list ap; va_start(ap, fmt);
  if (vp_file.nprintf == 0) { vp_file.fmt0 = (const char*)fmt; vp_file.a0 = va_arg(ap, u32); vp_file.a1 = va_arg(ap, u32); }
  else vp_file.fmt1 = (const char*)fmt;
  va_end(ap); vp_file.nprintf++; return 0;
}
#endif
#ifdef NEED_ir_fwrite
u64 ir_fwrite(void *p, u64 sz, u64 cnt, void *f)
{
  __CPROVER_assert(f == &vp_file && vp_file.closed == 0, "MEM:fwrite on a closed or foreign stream");
  u64 n = sz * cnt;
  __CPROVER_assert(vp_file.ndata + n <= VP_FILE_MAX, "BOUND:captured file larger than VP_FILE_MAX");
  for (u64 i = 0; i < n; i++) { VP_CHK((u8*)p + i, 1); vp_file.data[vp_file.ndata + i] = ((u8*)p)[i]; }
  vp_file.ndata += n; return cnt;
}
#endif
#ifdef NEED_ir_fputc
u32 ir_fputc(u32 c, void *f){ __CPROVER_assert(f == &vp_file && vp_file.closed == 0, "MEM:fputc on a closed or foreign stream"); vp_file.fmt1 = "\n"; vp_file.nprintf++; return c; }
#endif
#ifdef NEED_ir_vp_file
void *ir_vp_file(void){ return &vp_file; }
#endif

/* ---- posix_memalign by contract (C14): precondition asserted; returns ENOMEM or a fresh block of exactly `size` bytes at offset 0 ---- */
#ifdef NEED_ir_posix_memalign
u32 vp_memalign_calls; u64 vp_memalign_last_align, vp_memalign_last_size; void *vp_memalign_last_ptr; int vp_memalign_may_fail;
u32 ir_posix_memalign(void *pp, u64 align, u64 size)
{
  __CPROVER_assert(align != 0 && (align & (align - 1)) == 0 && align % sizeof(void*) == 0, "VP:posix_memalign precondition: alignment is a power of two and a multiple of sizeof(void*)");
  vp_memalign_calls++; vp_memalign_last_align = align; vp_memalign_last_size = size;
  if (size > VP_HEAP_MAX || (vp_memalign_may_fail && nondet_u8())) { vp_memalign_last_ptr = 0; return 12; }
  void *p = vp_alloc(size); *(void**)pp = p; vp_memalign_last_ptr = p; return 0;
}
#endif
#ifdef NEED_ir_vp_memalign_mode
void ir_vp_memalign_mode(u32 may_fail){ vp_memalign_may_fail = (int)may_fail; }
#endif
#ifdef NEED_ir_vp_memalign_info
void ir_vp_memalign_info(void *calls, void *align, void *size, void *ptr){ *(u32*)calls = vp_memalign_calls; *(u64*)align = vp_memalign_last_align; *(u64*)size = vp_memalign_last_size; *(void**)ptr = vp_memalign_last_ptr; }
#endif

/* ---- std::thread / condition_variable for the AsyncLoop protocol check (C03): the "background thread" is run by the harness
   as the main flow (vp_run_thread); the controller's operations are injected at the RKCOMMON_VERIF scheduling points ---- */
void *vp_thr_state; int vp_thr_started, vp_thr_finished, vp_in_join; int vp_cv_signal; int vp_cv_waiting;
#ifdef NEED_ir__ZNSt6thread15_M_start_threadESt10unique_ptrINS_6_StateESt14default_deleteIS1_EEPFvvE
void ir__ZNSt6thread15_M_start_threadESt10unique_ptrINS_6_StateESt14default_deleteIS1_EEPFvvE(void *thr, void *uptr, void *fn)
{ vp_thr_state = *(void**)uptr; *(void**)uptr = 0; *(u64*)thr = 1; vp_thr_started++; }
#endif
#ifdef NEED_ir__ZNSt6thread4joinEv
void ir__ZNSt6thread4joinEv(void *thr)
{ /* the controller blocks here until the loop thread returns: from now on no further controller operation is injected */
  __CPROVER_assert(*(u64*)thr != 0, "TRAP:join on a non-joinable thread"); vp_in_join = 1; *(u64*)thr = 0; }
#endif
#ifdef NEED_ir__ZNSt6thread6detachEv
void ir__ZNSt6thread6detachEv(void *thr){ *(u64*)thr = 0; }
#endif
#ifdef NEED_ir__ZNSt6thread6_StateD2Ev
void ir__ZNSt6thread6_StateD2Ev(void *s){ }
#endif
#ifdef NEED_ir__ZNSt6thread20hardware_concurrencyEv
u32 ir__ZNSt6thread20hardware_concurrencyEv(void){ u32 n = nondet_u32(); __CPROVER_assume(n >= 1 && n <= 64); return n; }
#endif
#ifdef NEED_ir__ZNSt18condition_variableC1Ev
void ir__ZNSt18condition_variableC1Ev(void *cv){ }
#endif
#ifdef NEED_ir__ZNSt18condition_variableD1Ev
void ir__ZNSt18condition_variableD1Ev(void *cv){ }
#endif
#ifdef NEED_ir__ZNSt18condition_variable10notify_oneEv
void ir__ZNSt18condition_variable10notify_oneEv(void *cv){ if (vp_cv_waiting) vp_cv_signal = 1; }
#endif
#ifdef NEED_ir__ZNSt18condition_variable10notify_allEv
void ir__ZNSt18condition_variable10notify_allEv(void *cv){ if (vp_cv_waiting) vp_cv_signal = 1; }
#endif

#if defined(NEED_ir__ZNSt18condition_variable4waitERSt11unique_lockISt5mutexE) && defined(NEED_ir_pthread_mutex_lock) && defined(NEED_ir_pthread_mutex_unlock)
void ir__ZNSt18condition_variable4waitERSt11unique_lockISt5mutexE(void *cv, void *lk)
{
  void *m = *(void**)lk;
  ir_pthread_mutex_unlock(m);
  vp_cv_waiting = 1;
  ir_vp_cv_block();                      /* harness: the other thread acts; returns when it has nothing more to do or a signal is pending */
  __CPROVER_assume(vp_cv_signal);        /* woken only by a signal (no spurious wake-ups: this is what exposes a lost wake-up) */
  vp_cv_signal = 0; vp_cv_waiting = 0;
  ir_pthread_mutex_lock(m);
}
#endif
#ifdef NEED_ir_vp_cv_pending
u32 ir_vp_cv_pending(void){ return vp_cv_signal; }
#endif
#ifdef NEED_ir_vp_in_join
u32 ir_vp_in_join(void){ return vp_in_join; }
#endif

/* ---- enkiTS / pthread worker threads (C13, C01, C02): pthread_create records the thread; workers are stalled (never scheduled)
   unless the harness switches them to "exit mode", in which a semaphore post lets every recorded worker run its start function once
   (used for StopThreads, where the workers see m_bRunning == false and return) ---- */
#define VP_MAXTHR 8
typedef void *(*vp_thr_fn)(void *);
struct vp_pthr { vp_thr_fn fn; void *arg; int done; };
struct vp_pthr vp_pthr_tab[VP_MAXTHR]; u32 vp_pthr_n, vp_pthr_created, vp_pthr_cancelled; int vp_workers_mode, vp_in_worker;
#ifdef NEED_ir_pthread_create
u32 ir_pthread_create(void *tid, void *attr, void *fn, void *arg)
{ __CPROVER_assert(vp_pthr_n < VP_MAXTHR, "BOUND:more than 8 worker threads"); vp_pthr_tab[vp_pthr_n].fn = (vp_thr_fn)fn; vp_pthr_tab[vp_pthr_n].arg = arg; vp_pthr_tab[vp_pthr_n].done = 0;
  *(u64*)tid = 100 + vp_pthr_n; vp_pthr_n++; vp_pthr_created++; return 0; }
#endif
#ifdef NEED_ir_pthread_cancel
u32 ir_pthread_cancel(u64 t){ vp_pthr_cancelled++; return 0; }
#endif
#ifdef NEED_ir_pthread_detach
u32 ir_pthread_detach(u64 t){ return 0; }
#endif
#ifdef NEED_ir_sem_init
u32 ir_sem_init(void *s, u32 sh, u32 v){ return 0; }
#endif
#ifdef NEED_ir_sem_destroy
u32 ir_sem_destroy(void *s){ return 0; }
#endif
#ifdef NEED_ir_sem_wait
u32 ir_sem_wait(void *s){ return 0; }
#endif
#ifdef NEED_ir_sem_post
u32 ir_sem_post(void *s)
{
  if (vp_workers_mode == 1 && !vp_in_worker) { vp_in_worker = 1; for (u32 i = 0; i < vp_pthr_n; i++) if (!vp_pthr_tab[i].done) { vp_pthr_tab[i].done = 1; VP_CALL_WORKER(vp_pthr_tab[i].arg); } vp_in_worker = 0; }
  return 0;
}
#endif
#ifdef NEED_ir_sysconf
u64 ir_sysconf(u32 name){ u32 n = nondet_u32(); __CPROVER_assume(n >= 1 && n <= 4); return n; }
#endif
#ifdef NEED_ir_vp_workers_mode
void ir_vp_workers_mode(u32 m){ vp_workers_mode = (int)m; }
#endif
#ifdef NEED_ir_vp_threads_created
u32 ir_vp_threads_created(void){ return vp_pthr_created; }
#endif
