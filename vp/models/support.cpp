// Out-of-line libstdc++ helpers that live in libstdc++.so (no header source), written from their specification so that
// vp/llpath.py can execute them as IR next to the real header code.  Same mangled names and object layouts as libstdc++.
// Red-black tree maintenance (tree.cc): standard CLRS insertion / deletion fix-up over _Rb_tree_node_base.
namespace std {
enum _Rb_tree_color { _S_red = false, _S_black = true };
struct _Rb_tree_node_base { _Rb_tree_color _M_color; _Rb_tree_node_base *_M_parent, *_M_left, *_M_right; };
typedef _Rb_tree_node_base *P;

static P local_increment(P x) {
  if (x->_M_right) { x = x->_M_right; while (x->_M_left) x = x->_M_left; }
  else { P y = x->_M_parent; while (x == y->_M_right) { x = y; y = y->_M_parent; } if (x->_M_right != y) x = y; }
  return x;
}
static P local_decrement(P x) {
  if (x->_M_color == _S_red && x->_M_parent->_M_parent == x) x = x->_M_right;
  else if (x->_M_left) { P y = x->_M_left; while (y->_M_right) y = y->_M_right; x = y; }
  else { P y = x->_M_parent; while (x == y->_M_left) { x = y; y = y->_M_parent; } x = y; }
  return x;
}
_Rb_tree_node_base *_Rb_tree_increment(_Rb_tree_node_base *x) throw() { return local_increment(x); }
const _Rb_tree_node_base *_Rb_tree_increment(const _Rb_tree_node_base *x) throw() { return local_increment(const_cast<P>(x)); }
_Rb_tree_node_base *_Rb_tree_decrement(_Rb_tree_node_base *x) throw() { return local_decrement(x); }
const _Rb_tree_node_base *_Rb_tree_decrement(const _Rb_tree_node_base *x) throw() { return local_decrement(const_cast<P>(x)); }

static void rotate_left(P x, P &root) {
  P y = x->_M_right;
  x->_M_right = y->_M_left; if (y->_M_left) y->_M_left->_M_parent = x;
  y->_M_parent = x->_M_parent;
  if (x == root) root = y; else if (x == x->_M_parent->_M_left) x->_M_parent->_M_left = y; else x->_M_parent->_M_right = y;
  y->_M_left = x; x->_M_parent = y;
}
static void rotate_right(P x, P &root) {
  P y = x->_M_left;
  x->_M_left = y->_M_right; if (y->_M_right) y->_M_right->_M_parent = x;
  y->_M_parent = x->_M_parent;
  if (x == root) root = y; else if (x == x->_M_parent->_M_right) x->_M_parent->_M_right = y; else x->_M_parent->_M_left = y;
  y->_M_right = x; x->_M_parent = y;
}
void _Rb_tree_insert_and_rebalance(const bool insert_left, _Rb_tree_node_base *x, _Rb_tree_node_base *p, _Rb_tree_node_base &header) throw() {
  P &root = header._M_parent;
  x->_M_parent = p; x->_M_left = 0; x->_M_right = 0; x->_M_color = _S_red;
  if (insert_left) { p->_M_left = x; if (p == &header) { header._M_parent = x; header._M_right = x; } else if (p == header._M_left) header._M_left = x; }
  else { p->_M_right = x; if (p == header._M_right) header._M_right = x; }
  while (x != root && x->_M_parent->_M_color == _S_red) {
    P xpp = x->_M_parent->_M_parent;
    if (x->_M_parent == xpp->_M_left) {
      P y = xpp->_M_right;
      if (y && y->_M_color == _S_red) { x->_M_parent->_M_color = _S_black; y->_M_color = _S_black; xpp->_M_color = _S_red; x = xpp; }
      else { if (x == x->_M_parent->_M_right) { x = x->_M_parent; rotate_left(x, root); }
             x->_M_parent->_M_color = _S_black; xpp->_M_color = _S_red; rotate_right(xpp, root); }
    } else {
      P y = xpp->_M_left;
      if (y && y->_M_color == _S_red) { x->_M_parent->_M_color = _S_black; y->_M_color = _S_black; xpp->_M_color = _S_red; x = xpp; }
      else { if (x == x->_M_parent->_M_left) { x = x->_M_parent; rotate_right(x, root); }
             x->_M_parent->_M_color = _S_black; xpp->_M_color = _S_red; rotate_left(xpp, root); }
    }
  }
  root->_M_color = _S_black;
}
_Rb_tree_node_base *_Rb_tree_rebalance_for_erase(_Rb_tree_node_base *const z, _Rb_tree_node_base &header) throw() {
  P &root = header._M_parent; P &leftmost = header._M_left; P &rightmost = header._M_right;
  P y = z, x = 0, x_parent = 0;
  if (y->_M_left == 0) x = y->_M_right; else if (y->_M_right == 0) x = y->_M_left;
  else { y = y->_M_right; while (y->_M_left) y = y->_M_left; x = y->_M_right; }
  if (y != z) {
    z->_M_left->_M_parent = y; y->_M_left = z->_M_left;
    if (y != z->_M_right) { x_parent = y->_M_parent; if (x) x->_M_parent = y->_M_parent; y->_M_parent->_M_left = x; y->_M_right = z->_M_right; z->_M_right->_M_parent = y; }
    else x_parent = y;
    if (root == z) root = y; else if (z->_M_parent->_M_left == z) z->_M_parent->_M_left = y; else z->_M_parent->_M_right = y;
    y->_M_parent = z->_M_parent;
    _Rb_tree_color c = y->_M_color; y->_M_color = z->_M_color; z->_M_color = c;
    y = z;
  } else {
    x_parent = y->_M_parent; if (x) x->_M_parent = y->_M_parent;
    if (root == z) root = x; else if (z->_M_parent->_M_left == z) z->_M_parent->_M_left = x; else z->_M_parent->_M_right = x;
    if (leftmost == z) { if (z->_M_right == 0) leftmost = z->_M_parent; else { P m = x; while (m->_M_left) m = m->_M_left; leftmost = m; } }
    if (rightmost == z) { if (z->_M_left == 0) rightmost = z->_M_parent; else { P m = x; while (m->_M_right) m = m->_M_right; rightmost = m; } }
  }
  if (y->_M_color != _S_red) {
    while (x != root && (x == 0 || x->_M_color == _S_black)) {
      if (x == x_parent->_M_left) {
        P w = x_parent->_M_right;
        if (w->_M_color == _S_red) { w->_M_color = _S_black; x_parent->_M_color = _S_red; rotate_left(x_parent, root); w = x_parent->_M_right; }
        if ((w->_M_left == 0 || w->_M_left->_M_color == _S_black) && (w->_M_right == 0 || w->_M_right->_M_color == _S_black)) { w->_M_color = _S_red; x = x_parent; x_parent = x_parent->_M_parent; }
        else { if (w->_M_right == 0 || w->_M_right->_M_color == _S_black) { w->_M_left->_M_color = _S_black; w->_M_color = _S_red; rotate_right(w, root); w = x_parent->_M_right; }
               w->_M_color = x_parent->_M_color; x_parent->_M_color = _S_black; if (w->_M_right) w->_M_right->_M_color = _S_black; rotate_left(x_parent, root); break; }
      } else {
        P w = x_parent->_M_left;
        if (w->_M_color == _S_red) { w->_M_color = _S_black; x_parent->_M_color = _S_red; rotate_right(x_parent, root); w = x_parent->_M_left; }
        if ((w->_M_right == 0 || w->_M_right->_M_color == _S_black) && (w->_M_left == 0 || w->_M_left->_M_color == _S_black)) { w->_M_color = _S_red; x = x_parent; x_parent = x_parent->_M_parent; }
        else { if (w->_M_left == 0 || w->_M_left->_M_color == _S_black) { w->_M_right->_M_color = _S_black; w->_M_color = _S_red; rotate_left(w, root); w = x_parent->_M_left; }
               w->_M_color = x_parent->_M_color; x_parent->_M_color = _S_black; if (w->_M_left) w->_M_left->_M_color = _S_black; rotate_right(x_parent, root); break; }
      }
    }
    if (x) x->_M_color = _S_black;
  }
  return y;
}
}
