/* Environment model library for ll2c output (DESIGN 2.3).  Included into the
   generated C after type and prototype emission; each model is compiled only when
   the IR declares the function (NEED_<name>).  All pointer parameters are void*
   (ll2c erases pointer types at external call sites). */

#ifdef VP_THREADS
__thread struct vp_exc_t vp_exc;
__thread struct vp_exc_t vp_caught;
#else
struct vp_exc_t vp_exc;
struct vp_exc_t vp_caught;
#endif

VP_TLS2 int vp_nothrow_flag;
#ifdef NEED_ir_vp_nothrow
void ir_vp_nothrow(u8 on){ vp_nothrow_flag = on; }
#endif
static int vp_exc_match(int thrown, int want)
{
  int t = thrown;
  for (int k = 0; k < 8 && t != 0; k++) { if (t == want) return 1; t = vp_tid_parent[t]; }
  return 0;
}

/* ---- input log: every nondet input is recorded so a cbmc trace can be replayed ---- */
#define VP_LOGMAX 256
u64 vp_log[VP_LOGMAX]; u32 vp_nlog;
static inline void vp_rec(u64 v){
#ifdef VP_THREADS
  __CPROVER_atomic_begin();
#endif
  if (vp_nlog < VP_LOGMAX) { vp_log[vp_nlog] = v; } vp_nlog++;
#ifdef VP_THREADS
  __CPROVER_atomic_end();
#endif
}
#ifdef NEED_ir_vp_nondet_u8
u8 ir_vp_nondet_u8(void){ u8 v = nondet_u8(); vp_rec(v); return v; }
#endif
#ifdef NEED_ir_vp_nondet_u16
u16 ir_vp_nondet_u16(void){ u16 v = nondet_u16(); vp_rec(v); return v; }
#endif
#ifdef NEED_ir_vp_nondet_u32
u32 ir_vp_nondet_u32(void){ u32 v = nondet_u32(); vp_rec(v); return v; }
#endif
#ifdef NEED_ir_vp_nondet_u64
u64 ir_vp_nondet_u64(void){ u64 v = nondet_u64(); vp_rec(v); return v; }
#endif
#ifdef NEED_ir_vp_nondet_f32
float ir_vp_nondet_f32(void){ float v = nondet_f32(); u32 b; memcpy(&b,&v,4); vp_rec(b); return v; }
#endif
#ifdef NEED_ir_vp_nondet_f64
double ir_vp_nondet_f64(void){ double v = nondet_f64(); u64 b; memcpy(&b,&v,8); vp_rec(b); return v; }
#endif
#ifdef NEED_ir_vp_atomic_begin
void ir_vp_atomic_begin(void){ __CPROVER_atomic_begin(); }
#endif
#ifdef NEED_ir_vp_atomic_end
void ir_vp_atomic_end(void){ __CPROVER_atomic_end(); }
#endif
#ifdef VP_RACE
const u8 *vp_sh_base; u64 vp_sh_size; u8 vp_cur_thr = 1; u32 vp_cur_ls;
u8 vp_wthr[64], vp_rthr[64]; u32 vp_wls[64], vp_rls[64];
#else
u8 vp_cur_thr = 1; u32 vp_cur_ls;
#endif
/* pthread mutex: identity -> lock bit; lock/unlock maintain the current logical thread's lockset (sequential runs: never contended) */
static const void *vp_mtx[8]; static u8 vp_mtx_owner[8];
static int vp_mtx_id(const void *m){ for (int i = 0; i < 8; i++) { if (vp_mtx[i] == m) return i; if (vp_mtx[i] == 0) { vp_mtx[i] = m; return i; } } __CPROVER_assert(0, "BOUND:more than 8 mutexes"); return 0; }
#ifdef NEED_ir_pthread_mutex_lock
u32 ir_pthread_mutex_lock(void *m){ int i = vp_mtx_id(m); __CPROVER_assert(vp_mtx_owner[i] == 0, "TRAP:mutex locked while already held (deadlock in a run-to-completion operation)"); vp_mtx_owner[i] = vp_cur_thr; vp_cur_ls |= (1u << i); return 0; }
#endif
#ifdef NEED_ir_pthread_mutex_unlock
u32 ir_pthread_mutex_unlock(void *m){ int i = vp_mtx_id(m); __CPROVER_assert(vp_mtx_owner[i] == vp_cur_thr, "TRAP:mutex unlocked by a thread that does not hold it"); vp_mtx_owner[i] = 0; vp_cur_ls &= ~(1u << i); return 0; }
#endif
#ifdef NEED_ir_vp_thread
void ir_vp_thread(u32 t){ vp_cur_thr = (u8)t; vp_cur_ls = 0; }
#endif
#ifdef NEED_ir___pthread_key_create
u32 ir___pthread_key_create(void *k, void *d){ return 0; }
#endif
#ifdef NEED_ir_vp_shared
void ir_vp_shared(void *p, u64 n){
#ifdef VP_RACE
  __CPROVER_assert(n <= 64, "HARNESS:vp_shared region too large"); vp_sh_base = (const u8*)p; vp_sh_size = n;
#endif
}
#endif

/* ---- allocation: operator new/delete = malloc/free; allocation failure out of scope ---- */
u64 vp_objsz[VP_NOBJ];
static inline void *vp_alloc(u64 n){ __CPROVER_assert(n <= VP_HEAP_MAX, "BOUND:heap block larger than VP_HEAP_MAX"); __CPROVER_assume(n <= VP_HEAP_MAX); void *p = malloc(VP_HEAP_MAX); __CPROVER_assume(p != 0); vp_objsz[__CPROVER_POINTER_OBJECT(p)] = n + 1; return p; }
#ifdef NEED_ir__Znwm
void *ir__Znwm(u64 n){ return vp_alloc(n); }
#endif
#ifdef NEED_ir__Znam
void *ir__Znam(u64 n){ return vp_alloc(n); }
#endif
#ifdef NEED_ir__ZnwmRKSt9nothrow_t
void *ir__ZnwmRKSt9nothrow_t(u64 n, void *t){ return vp_alloc(n); }
#endif
#ifdef NEED_ir__ZnamRKSt9nothrow_t
void *ir__ZnamRKSt9nothrow_t(u64 n, void *t){ return vp_alloc(n); }
#endif
#ifdef NEED_ir__ZnwmSt11align_val_t
void *ir__ZnwmSt11align_val_t(u64 n, u64 a){ return vp_alloc(n); }
#endif
#ifdef NEED_ir__ZdlPv
void ir__ZdlPv(void *p){ free(p); }
#endif
#ifdef NEED_ir__ZdaPv
void ir__ZdaPv(void *p){ free(p); }
#endif
#ifdef NEED_ir__ZdlPvm
void ir__ZdlPvm(void *p, u64 n){ free(p); }
#endif
#ifdef NEED_ir__ZdaPvm
void ir__ZdaPvm(void *p, u64 n){ free(p); }
#endif
#ifdef NEED_ir__ZdlPvSt11align_val_t
void ir__ZdlPvSt11align_val_t(void *p, u64 a){ free(p); }
#endif
#ifdef NEED_ir__ZdlPvmSt11align_val_t
void ir__ZdlPvmSt11align_val_t(void *p, u64 n, u64 a){ free(p); }
#endif
#ifdef NEED_ir_malloc
void *ir_malloc(u64 n){ return vp_alloc(n); }
#endif
#ifdef NEED_ir_free
void ir_free(void *p){ free(p); }
#endif
#ifdef NEED_ir_calloc
void *ir_calloc(u64 a, u64 b){ void *p = vp_alloc(a*b); memset(p, 0, a*b); return p; }
#endif

/* ---- exceptions ---- */
#ifdef NEED_ir___cxa_allocate_exception
void *ir___cxa_allocate_exception(u64 n){ return vp_alloc(n); }
#endif
#ifdef NEED_ir___cxa_free_exception
void ir___cxa_free_exception(void *p){ }
#endif
#ifdef NEED_ir___cxa_begin_catch
void *ir___cxa_begin_catch(void *p){ vp_exc.active = 0; vp_caught = vp_exc; vp_caught.obj = p; return p; }
#endif
#ifdef NEED_ir___cxa_end_catch
void ir___cxa_end_catch(void){ }
#endif
#ifdef NEED_ir___cxa_rethrow
void ir___cxa_rethrow(void){ vp_exc = vp_caught; vp_exc.active = 1; }
#endif
#ifdef NEED_ir___dynamic_cast
/* single-inheritance, offset-0 dynamic_cast: walk the class table from the object's dynamic type */
void *ir___dynamic_cast(void *sub, void *src, void *dst, u64 hint)
{
  if (sub == 0) return 0;
  const void *const *vptr = *(const void *const **)sub;
  const void *ti = vptr[-1];
  for (int k = 0; k < 6 && ti != 0; k++) { if (ti == dst) return sub; ti = vp_ti_parent(ti); }
  return 0;
}
#endif
#ifdef NEED_ir___cxa_pure_virtual
void ir___cxa_pure_virtual(void){ __CPROVER_assert(0, "TRAP:pure virtual call"); __CPROVER_assume(0); }
#endif
#ifdef NEED_ir__ZSt9terminatev
void ir__ZSt9terminatev(void){ __CPROVER_assert(0, "TRAP:std::terminate called"); __CPROVER_assume(0); }
#endif
#ifdef NEED_ir___clang_call_terminate
void ir___clang_call_terminate(void *p){ __CPROVER_assert(0, "TRAP:std::terminate called"); __CPROVER_assume(0); }
#endif
#ifdef NEED_ir_abort
void ir_abort(void){ __CPROVER_assert(0, "TRAP:abort called"); __CPROVER_assume(0); }
#endif
#ifdef NEED_ir___assert_fail
void ir___assert_fail(void *e, void *f, u32 l, void *fn){ __CPROVER_assert(0, "TRAP:assert() in library code failed"); __CPROVER_assume(0); }
#endif
#ifdef NEED_ir___cxa_thread_atexit
u32 ir___cxa_thread_atexit(void *f, void *a, void *d){ return 0; }   /* thread-exit destructors never run inside an entry */
#endif
#ifdef NEED_ir___cxa_atexit
u32 ir___cxa_atexit(void *f, void *a, void *d){ return 0; }
#endif
#ifdef NEED_ir___cxa_guard_acquire
u32 ir___cxa_guard_acquire(void *g){ return *(u8*)g == 0; }
#endif
#ifdef NEED_ir___cxa_guard_release
void ir___cxa_guard_release(void *g){ *(u8*)g = 1; }
#endif
#ifdef NEED_ir___cxa_guard_abort
void ir___cxa_guard_abort(void *g){ }
#endif
#define VP_THROWER(fn, tid) void fn(void *msg){ vp_throw(vp_alloc(16), tid); }
#ifdef NEED_ir__ZSt20__throw_length_errorPKc
VP_THROWER(ir__ZSt20__throw_length_errorPKc, VP_TID_St12length_error)
#endif
#ifdef NEED_ir__ZSt19__throw_logic_errorPKc
VP_THROWER(ir__ZSt19__throw_logic_errorPKc, VP_TID_St11logic_error)
#endif
#ifdef NEED_ir__ZSt21__throw_runtime_errorPKc
VP_THROWER(ir__ZSt21__throw_runtime_errorPKc, VP_TID_St13runtime_error)
#endif
#ifdef NEED_ir__ZSt20__throw_out_of_rangePKc
VP_THROWER(ir__ZSt20__throw_out_of_rangePKc, VP_TID_St12out_of_range)
#endif
#ifdef NEED_ir__ZSt24__throw_invalid_argumentPKc
VP_THROWER(ir__ZSt24__throw_invalid_argumentPKc, VP_TID_St16invalid_argument)
#endif
#ifdef NEED_ir__ZSt24__throw_out_of_range_fmtPKcz
void ir__ZSt24__throw_out_of_range_fmtPKcz(void *fmt, ...){ vp_throw(vp_alloc(16), VP_TID_St12out_of_range); }
#endif
#ifdef NEED_ir__ZSt17__throw_bad_allocv
void ir__ZSt17__throw_bad_allocv(void){ vp_throw(vp_alloc(16), VP_TID_St9bad_alloc); }
#endif
#ifdef NEED_ir__ZSt28__throw_bad_array_new_lengthv
void ir__ZSt28__throw_bad_array_new_lengthv(void){ vp_throw(vp_alloc(16), VP_TID_St20bad_array_new_length); }
#endif
#ifdef NEED_ir__ZSt16__throw_bad_castv
void ir__ZSt16__throw_bad_castv(void){ vp_throw(vp_alloc(16), VP_TID_St8bad_cast); }
#endif
#ifdef NEED_ir__ZSt25__throw_bad_function_callv
void ir__ZSt25__throw_bad_function_callv(void){ vp_throw(vp_alloc(16), VP_TID_St17bad_function_call); }
#endif
#ifdef NEED_ir__ZSt20__throw_system_errori
void ir__ZSt20__throw_system_errori(u32 e){ vp_throw(vp_alloc(16), VP_TID_St12system_error); }
#endif
/* std exception constructors / destructors: type tag only */
#ifdef NEED_ir__ZNSt13runtime_errorC1ERKNSt7__cxx1112basic_stringIcSt11char_traitsIcESaIcEEE
void ir__ZNSt13runtime_errorC1ERKNSt7__cxx1112basic_stringIcSt11char_traitsIcESaIcEEE(void *t, void *s){ }
#endif
#ifdef NEED_ir__ZNSt13runtime_errorC2ERKNSt7__cxx1112basic_stringIcSt11char_traitsIcESaIcEEE
void ir__ZNSt13runtime_errorC2ERKNSt7__cxx1112basic_stringIcSt11char_traitsIcESaIcEEE(void *t, void *s){ }
#endif
#ifdef NEED_ir__ZNSt13runtime_errorC1EPKc
void ir__ZNSt13runtime_errorC1EPKc(void *t, void *s){ }
#endif
#ifdef NEED_ir__ZNSt13runtime_errorC2EPKc
void ir__ZNSt13runtime_errorC2EPKc(void *t, void *s){ }
#endif
#ifdef NEED_ir__ZNSt13runtime_errorD1Ev
void ir__ZNSt13runtime_errorD1Ev(void *t){ }
#endif
#ifdef NEED_ir__ZNSt13runtime_errorD2Ev
void ir__ZNSt13runtime_errorD2Ev(void *t){ }
#endif
#ifdef NEED_ir__ZNSt12out_of_rangeC1EPKc
void ir__ZNSt12out_of_rangeC1EPKc(void *t, void *s){ }
#endif
#ifdef NEED_ir__ZNSt12out_of_rangeC1ERKNSt7__cxx1112basic_stringIcSt11char_traitsIcESaIcEEE
void ir__ZNSt12out_of_rangeC1ERKNSt7__cxx1112basic_stringIcSt11char_traitsIcESaIcEEE(void *t, void *s){ }
#endif
#ifdef NEED_ir__ZNSt12out_of_rangeD1Ev
void ir__ZNSt12out_of_rangeD1Ev(void *t){ }
#endif
#ifdef NEED_ir__ZNSt12length_errorC1EPKc
void ir__ZNSt12length_errorC1EPKc(void *t, void *s){ }
#endif
#ifdef NEED_ir__ZNSt12length_errorD1Ev
void ir__ZNSt12length_errorD1Ev(void *t){ }
#endif
#ifdef NEED_ir__ZNSt11logic_errorC1EPKc
void ir__ZNSt11logic_errorC1EPKc(void *t, void *s){ }
#endif
#ifdef NEED_ir__ZNSt11logic_errorC2EPKc
void ir__ZNSt11logic_errorC2EPKc(void *t, void *s){ }
#endif
#ifdef NEED_ir__ZNSt11logic_errorD1Ev
void ir__ZNSt11logic_errorD1Ev(void *t){ }
#endif
#ifdef NEED_ir__ZNSt11logic_errorD2Ev
void ir__ZNSt11logic_errorD2Ev(void *t){ }
#endif
#ifdef NEED_ir__ZNSt9bad_allocD1Ev
void ir__ZNSt9bad_allocD1Ev(void *t){ }
#endif
#ifdef NEED_ir__ZNSt9exceptionD2Ev
void ir__ZNSt9exceptionD2Ev(void *t){ }
#endif
#ifdef NEED_ir__ZNSt9exceptionD1Ev
void ir__ZNSt9exceptionD1Ev(void *t){ }
#endif

/* ---- libc ---- */
#ifdef NEED_ir_memcmp
u32 ir_memcmp(void *a, void *b, u64 n){ return (u32)memcmp(a, b, n); }
#endif
#ifdef NEED_ir_bcmp
u32 ir_bcmp(void *a, void *b, u64 n){ return (u32)memcmp(a, b, n); }
#endif
#ifdef NEED_ir_strlen
u64 ir_strlen(void *s){ const char *p = (const char*)s; u64 n = 0; while (p[n]) n++; return n; }
#endif
#ifdef NEED_ir_strcmp
u32 ir_strcmp(void *a, void *b){ const u8 *p=(const u8*)a,*q=(const u8*)b; while(*p && *p==*q){p++;q++;} return (u32)((int)*p-(int)*q); }
#endif
#ifdef NEED_ir_memchr
void *ir_memchr(void *s, u32 c, u64 n){ const u8 *p=(const u8*)s; for(u64 i=0;i<n;i++) if(p[i]==(u8)c) return (void*)(p+i); return 0; }
#endif
#ifdef NEED_ir_isalpha
u32 ir_isalpha(u32 c){ return (c>='a'&&c<='z')||(c>='A'&&c<='Z'); }
#endif
#ifdef NEED_ir_isspace
u32 ir_isspace(u32 c){ return c==' '||(c>=9&&c<=13); }
#endif
#ifdef NEED_ir_isdigit
u32 ir_isdigit(u32 c){ return c>='0'&&c<='9'; }
#endif
#ifdef NEED_ir_tolower
u32 ir_tolower(u32 c){ return (c>='A'&&c<='Z') ? c+32 : c; }
#endif
#ifdef NEED_ir_toupper
u32 ir_toupper(u32 c){ return (c>='a'&&c<='z') ? c-32 : c; }
#endif
#ifdef NEED_ir_sched_yield
u32 ir_sched_yield(void){
#ifdef VP_YIELD_BLOCKS
  /* a spin-wait on another thread: in the injection scheme that thread is suspended below us, so this path cannot progress */
  __CPROVER_assume(0);
#endif
  return 0; }
#endif

#include "models_more.c"
