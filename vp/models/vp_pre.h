/* Prelude for ll2c-generated C: scalar typedefs, solver/native meaning of the
   harness protocol, exception record.  Compiles under cbmc (__CPROVER__) and,
   for translation validation (DESIGN 2.5), under gcc with -DVP_NATIVE. */
#ifndef VP_PRE_H
#define VP_PRE_H
#include <stdint.h>
#include <stddef.h>
#include <string.h>
#include <stdlib.h>
#include <math.h>
#include <stdarg.h>
typedef uint8_t u8; typedef uint16_t u16; typedef uint32_t u32; typedef uint64_t u64;
typedef int8_t i8; typedef int16_t i16; typedef int32_t i32; typedef int64_t i64;
typedef unsigned __int128 u128; typedef __int128 i128;

#ifdef VP_NATIVE
#include <stdio.h>
extern u64 vp_native_next(int bits);
static inline u8 nondet_u8(void){return (u8)vp_native_next(8);}
static inline u16 nondet_u16(void){return (u16)vp_native_next(16);}
static inline u32 nondet_u32(void){return (u32)vp_native_next(32);}
static inline u64 nondet_u64(void){return (u64)vp_native_next(64);}
static inline float nondet_f32(void){u32 b=(u32)vp_native_next(32); float f; memcpy(&f,&b,4); return f;}
static inline double nondet_f64(void){u64 b=vp_native_next(64); double f; memcpy(&f,&b,8); return f;}
#define __CPROVER_assume(c) do{ if(!(c)){ printf("VP_ASSUME_FAIL\n"); exit(0);} }while(0)
extern int vp_native_trace;
#define __CPROVER_assert(c,l) do{ int c_=!!(c); if(vp_native_trace && l[0]=='V' && l[1]=='P' && l[2]==':') printf("A %s %d\n", l+3, c_); if(!c_){ printf("VP_ASSERT_FAIL %s\n", (l[0]=='V'&&l[1]=='P'&&l[2]==':')? l+3 : l); fflush(stdout); _Exit(3);} }while(0)
#define __CPROVER_atomic_begin() ((void)0)
#define __CPROVER_atomic_end() ((void)0)
#define VP_SPAWN(fn,arg) (fn)(arg)
#else
u8 nondet_u8(void); u16 nondet_u16(void); u32 nondet_u32(void); u64 nondet_u64(void);
float nondet_f32(void); double nondet_f64(void);
#define VP_SPAWN3(fn,arg,n) do{ __CPROVER_ASYNC_##n: (fn)(arg); }while(0)
#define VP_SPAWN2(fn,arg,n) VP_SPAWN3(fn,arg,n)
#define VP_SPAWN(fn,arg) VP_SPAWN2(fn,arg,__COUNTER__)
#endif

#define VP_ASSERT(c,l) __CPROVER_assert((c), "VP:" l)
#ifdef VP_NATIVE
#define VP_REACH(l) do{ if(vp_native_trace) printf("R %s\n", l); }while(0)
#elif defined(VP_WITNESS)
#define VP_REACH(l) __CPROVER_assert(0, "REACH:" l)
#else
#define VP_REACH(l) ((void)0)
#endif
#define VP_UB(c,l) __CPROVER_assert((c), "UB:" l)
#define VP_UNREACHABLE() do{ __CPROVER_assert(0, "UB:unreachable executed"); __CPROVER_assume(0);}while(0)
#define VP_TRAP() do{ __CPROVER_assert(0, "TRAP:llvm.trap"); __CPROVER_assume(0);}while(0)
#define VP_ATOMIC_BEGIN() __CPROVER_atomic_begin()
#define VP_ATOMIC_END() __CPROVER_atomic_end()
#define VP_FENCE() ((void)0)
#define VP_POINT(l) ((void)0)
#define VP_TID_CATCHALL 9999

#ifdef VP_THREADS
#define VP_TLS2 __thread
#else
#define VP_TLS2
#endif
/* pending exception record (DESIGN 2.3) */
struct vp_exc_t { int active; void *obj; int tid; };
#ifdef VP_THREADS
extern __thread struct vp_exc_t vp_exc;
extern __thread struct vp_exc_t vp_caught;
#else
extern struct vp_exc_t vp_exc;
extern struct vp_exc_t vp_caught;
#endif
extern VP_TLS2 int vp_nothrow_flag;
static inline void vp_throw(void *obj, int tid){
  if (vp_nothrow_flag) { __CPROVER_assert(0, "VP:unexpected C++ exception in a no-throw region"); __CPROVER_assume(0); }
  vp_exc.active = 1; vp_exc.obj = obj; vp_exc.tid = tid; }

/* race instrumentation (lockset discipline, decided in a sequential run): every non-atomic IR load/store (and, with the
   pseudo-lock ATOMIC, every atomic one) on the declared-shared region records the logical thread and the set of mutexes held;
   two conflicting accesses from different logical threads whose locksets are disjoint are a C++ data race for the documented
   usage in which those threads run concurrently. */
#ifdef VP_RACE
#define VP_LS_ATOMIC 0x80000000u
extern const u8 *vp_sh_base; extern u64 vp_sh_size; extern u8 vp_cur_thr; extern u32 vp_cur_ls;
extern u8 vp_wthr[64], vp_rthr[64]; extern u32 vp_wls[64], vp_rls[64];
static inline void vp_race_acc(const u8 *p, u64 n, int isw, u32 extra)
{
  u32 ls = vp_cur_ls | extra;
  for (u64 i = 0; i < n; i++) {
    u64 b = (u64)(p + i) - (u64)vp_sh_base;
    if (vp_sh_base != 0 && __CPROVER_POINTER_OBJECT(p) == __CPROVER_POINTER_OBJECT(vp_sh_base) && b < vp_sh_size && b < 64) {
      if (vp_wthr[b] != 0 && vp_wthr[b] != vp_cur_thr) __CPROVER_assert((vp_wls[b] & ls) != 0, "RACE:access conflicts with a write of another thread and no common lock is held");
      if (isw && vp_rthr[b] != 0 && vp_rthr[b] != vp_cur_thr) __CPROVER_assert((vp_rls[b] & ls) != 0, "RACE:write conflicts with a read of another thread and no common lock is held");
      if (isw) { vp_wls[b] = (vp_wthr[b] == 0) ? ls : (vp_wls[b] & ls); vp_wthr[b] = (vp_wthr[b] == 0 || vp_wthr[b] == vp_cur_thr) ? vp_cur_thr : 255; }
      else { vp_rls[b] = (vp_rthr[b] == 0) ? ls : (vp_rls[b] & ls); vp_rthr[b] = (vp_rthr[b] == 0 || vp_rthr[b] == vp_cur_thr) ? vp_cur_thr : 255; }
    }
  }
}
#define VP_RACE_W_BEGIN(p,n) vp_race_acc((const u8*)(p), (n), 1, 0)
#define VP_RACE_W_END(p,n) ((void)0)
#define VP_RACE_R_BEGIN(p,n) vp_race_acc((const u8*)(p), (n), 0, 0)
#define VP_RACE_R_END(p,n) ((void)0)
#define VP_RACE_AW(p,n) vp_race_acc((const u8*)(p), (n), 1, VP_LS_ATOMIC)
#define VP_RACE_AR(p,n) vp_race_acc((const u8*)(p), (n), 0, VP_LS_ATOMIC)
#else
#define VP_RACE_W_BEGIN(p,n) ((void)0)
#define VP_RACE_W_END(p,n) ((void)0)
#define VP_RACE_R_BEGIN(p,n) ((void)0)
#define VP_RACE_R_END(p,n) ((void)0)
#define VP_RACE_AW(p,n) ((void)0)
#define VP_RACE_AR(p,n) ((void)0)
#endif

/* heap model: blocks of symbolic size are allocated at the constant capacity VP_HEAP_MAX (a symbolic-size
   object sends cbmc into the array theory and does not finish); the requested size is kept in a ghost table
   indexed by object id and every access through a possibly-heap pointer is checked against it (VP_CHK). */
#ifndef VP_RECLIMIT
#define VP_RECLIMIT 2
#endif
#ifdef VP_THREADS
#define VP_TLS __thread
#else
#define VP_TLS
#endif
#ifndef VP_HEAP_MAX
#define VP_HEAP_MAX 64
#endif
#ifdef VP_NATIVE
#define VP_CHK(p,sz) ((void)0)
#define __CPROVER_POINTER_OBJECT(p) 0
#else
#define VP_CHK(p,sz) __CPROVER_assert(vp_objsz[__CPROVER_POINTER_OBJECT(p)] == 0 || (u64)__CPROVER_POINTER_OFFSET(p) + (sz) < vp_objsz[__CPROVER_POINTER_OBJECT(p)], "MEM:access beyond the requested size of a heap block")
#endif
#ifndef VP_NOBJ
#define VP_NOBJ 256
#endif
extern u64 vp_objsz[VP_NOBJ];
/* symbolic-length byte operations as plain loops (cbmc's built-in array copy with a symbolic size does not terminate in post-processing) */
static inline void vp_memcpy(u8 *d, const u8 *s, u64 n){ for (u64 i = 0; i < n; i++) { VP_CHK(d+i,1); VP_CHK(s+i,1); d[i] = s[i]; } }
static inline void vp_memmove(u8 *d, const u8 *s, u64 n){ if ((u64)d <= (u64)s || (u64)d >= (u64)s + n) { for (u64 i = 0; i < n; i++) { VP_CHK(d+i,1); VP_CHK(s+i,1); d[i] = s[i]; } } else { for (u64 i = n; i > 0; i--) { VP_CHK(d+i-1,1); VP_CHK(s+i-1,1); d[i-1] = s[i-1]; } } }
static inline void vp_memset(u8 *d, u8 c, u64 n){ for (u64 i = 0; i < n; i++) { VP_CHK(d+i,1); d[i] = c; } }
static inline u32 vp_ctlz32(u32 x){ u32 n=0; if(!x) return 32; while(!(x&0x80000000u)){x<<=1;n++;} return n; }
static inline u64 vp_ctlz64(u64 x){ u64 n=0; if(!x) return 64; while(!(x&0x8000000000000000ull)){x<<=1;n++;} return n; }
static inline u32 vp_cttz32(u32 x){ u32 n=0; if(!x) return 32; while(!(x&1)){x>>=1;n++;} return n; }
static inline u64 vp_cttz64(u64 x){ u64 n=0; if(!x) return 64; while(!(x&1)){x>>=1;n++;} return n; }
static inline u32 vp_ctpop32(u32 x){ x = x - ((x >> 1) & 0x55555555u); x = (x & 0x33333333u) + ((x >> 2) & 0x33333333u); x = (x + (x >> 4)) & 0x0f0f0f0fu; return (x * 0x01010101u) >> 24; }
static inline u64 vp_ctpop64(u64 x){ return (u64)vp_ctpop32((u32)x) + (u64)vp_ctpop32((u32)(x >> 32)); }
static inline u32 vp_bswap32(u32 x){ return (x>>24)|((x>>8)&0xff00)|((x<<8)&0xff0000)|(x<<24); }
static inline void *vp_opaque_ptr(void){ return malloc(64); }

#endif
