#!/usr/bin/env python3
"""Regenerates /verif/MANIFEST.json from the table below (kept valid at all times)."""
import json, os, sys
ROOT = os.path.dirname(os.path.dirname(os.path.abspath(__file__)))

CLAIMED = {
    # id: (category, text, design_ref, level_note, technique)
    "C11": ("model_checking",
            "Bounded symbolic checking of the real ArrayView/OwnedArray/FixedArray/FixedArrayView/DataView code (clang IR -> C -> cbmc): "
            "every obligation is a SAT verdict over all element values, sizes 0..N, indices (full 64 bit for at()) and all operation "
            "histories up to the stated length; heap accesses are checked against exact block sizes; counterexamples are replayed under ASan/UBSan.",
            "DESIGN.md 3/C11",
            "sizes <= 3 (quick) / 4 (thorough), history length <= 2 / 3, element types uint8_t/int/12-byte POD; allocation never fails; "
            "operator new/delete = malloc/free model; trusted: clang -O1 lowering, ll2c translator (validated by differential runs), cbmc",
            "bounded model checking (cbmc) of LLVM-IR-derived C, native sanitizer replay"),
    "C18": ("model_checking",
            "Symbolic execution of the real StringManip/PseudoURL/FileName/ArgumentList/common.cpp code (clang IR -> vp/llpath.py, a KLEE-style "
            "path-forking executor; libstdc++'s string/vector code is the real header code instantiated in the TU): every feasible path for every string of "
            "the stated lengths over arbitrary bytes is executed, z3 decides branch feasibility and every obligation (decomposition laws, memory safety, "
            "libstdc++ preconditions); prettyNumber/prettyDouble thresholds by SMT over exact reals (ll2smt); counterexamples replayed under ASan/UBSan.",
            "DESIGN.md 3/C18",
            "string lengths 0..5 (quick) / 0..7 (thorough), FileName 1..5 / 1..6; PseudoURL: 0-2 letter type, 1-2 character file, two pairs; argument vectors of <= 5; "
            "split(input,char) via getline, canonical()/homeFolder() and printed decimal digits are outside; exceeding a path/step/time limit is reported inconclusive",
            "symbolic execution of LLVM IR with z3 (vp/llpath.py) + SMT (ll2smt), native sanitizer replay"),
    "C16": ("model_checking",
            "Symbolic execution of the real XML.cpp parser (clang IR -> vp/llpath.py, path-forking executor deciding with z3): for every byte string of the stated "
            "length - bare and behind prefixes that put the parser into each scanning loop - every feasible path is executed; obligations: returns or throws "
            "std::runtime_error, every cursor dereference inside the file's bytes plus the terminating NUL, termination; and for documents generated from small "
            "trees with symbolic names, values and contents the tree read back equals the generating tree. Counterexamples are replayed under ASan/UBSan.",
            "DESIGN.md 3/C16",
            "byte strings of length 5 (quick) / 7 (thorough) behind 7 prefixes; generated trees: depth <= 3, <= 2 children, <= 2 properties, names of 1-2 characters, "
            "1-character values and 1-2 word contents with every admissible byte; readXML's file framing (fopen/fseek/fread) and the writer are outside; "
            "error-message text (stringstream/iostream) opaque; allocation never fails",
            "symbolic execution of LLVM IR with z3 (vp/llpath.py), native sanitizer replay"),
    "C01": ("model_checking",
            "Symbolic execution of the real parallel_for / parallel_foreach / parallel_in_blocks_of code on the internal (enkiTS) back end compiled from source and on "
            "the serial back end (clang IR -> vp/llpath.py with its thread model: pthread_create, semaphores, volatile/atomic accesses executed; schedules explored "
            "by forking at synchronisation points with a preemption bound). Task counts are symbolic and made concrete per value the solver finds feasible; the body "
            "asserts it is only called inside [0,n); exactly-once and visibility are checked when the call returns; memory safety of the scheduler is an obligation.",
            "DESIGN.md 3/C01",
            "n in -2..5 (blocks: -1..10, block sizes 1,3,4); all 8 index types; 1 and 2 tasking threads (3 thorough) on one deterministic schedule, plus every schedule with "
            "<= 1 preemption (2 thorough) for 2 threads; nested loops 0..2 x 0..2, and 8/12 x 3/6 with the per-thread pipe shrunk to 2 slots (hook RKCOMMON_VERIF_PIPESIZE_LOG2) so the pipe-full fallback runs; TBB and OpenMP back ends NOT checked (closed libraries); sequentially consistent memory; n >= 2^31 outside",
            "symbolic execution of LLVM IR with z3 and bounded schedule exploration (vp/llpath.py), native sanitizer replay"),
    "C02": ("model_checking",
            "Symbolic execution of schedule() and AsyncTask on the internal (enkiTS) and serial back ends (vp/llpath.py thread model, bounded schedule exploration): "
            "execution count of every scheduled closure, use of task storage after release (heap checks), AsyncTask::get()/finished() for every int result with a "
            "payload type that observes construction, destruction and assignment into unconstructed storage.",
            "DESIGN.md 3/C02",
            "1-2 tasking threads (3 thorough), bursts of 1..3 tasks, <= 1 preemption (2 thorough); async()/std::future (libstdc++.so internals), TBB and OpenMP back ends NOT checked; "
            "two open known findings (self-deleting task, single-thread starvation) are reported as KNOWN-FINDING and excluded by exact signature",
            "symbolic execution of LLVM IR with z3 and bounded schedule exploration (vp/llpath.py), native sanitizer replay"),
    "C13": ("model_checking",
            "Symbolic execution of initTaskingSystem/numTaskingThreads on the internal (enkiTS) and serial back ends (vp/llpath.py): reported count, number of worker "
            "threads actually created, re-initialisation, and the maximum number of simultaneously active parallel_for bodies under explored schedules; the TBB and OpenMP configurations of tasking_system_init.cpp with the library calls replaced by contract models.",
            "DESIGN.md 3/C13",
            "n in {-1,0,1,2,3}, re-initialisation with 1..3; hardware_concurrency() fixed at 3; active-body bound for 1-2 threads (3 thorough) with <= 1 preemption (2 thorough); "
            "TBB and OpenMP configurations: only the reporting half (tasking_system_init.cpp with tbb::global_control / omp_* replaced by their documented contracts, every n in 1..1000, 3 / 5 re-initialisations); "
            "how many threads those closed libraries really use is NOT checked",
            "symbolic execution of LLVM IR with z3 and bounded schedule exploration (vp/llpath.py), native sanitizer replay"),
    "C15": ("model_checking",
            "Bounded symbolic checking of the real DataStreaming.cpp/.h code: FixedBufferWriter::write/reserve and BufferReader::read/getView "
            "as one step from an arbitrary valid (capacity,cursor) state with the size/count a full 64-bit symbol; typed round trips through "
            "BufferWriter->BufferReader with symbolic contents; every truncation point; WriteSizeCalculator agreement.",
            "DESIGN.md 3/C15",
            "capacity <= 4 (quick) / 6 (thorough) bytes; round-trip shapes: POD tuple, vector<int> 0..1 (2 thorough), AbstractArray<int> 0..2; "
            "std::string payloads of length <= 2 / 3 with every byte value (cbmc, libstdc++ string model) and of length 15/16/33 plus vector<string> of 0-3 strings (vp/llpath.py unit, real libstdc++ code); getView<T> only compiles for uint8_t; "
            "allocation never fails",
            "bounded model checking (cbmc) of LLVM-IR-derived C + symbolic execution of LLVM IR with z3 (vp/llpath.py), native sanitizer replay"),
    "C04": ("other",
            "SMT verdicts (z3) over all operand values for every instantiated vec_t operator: the real vec.h code is lowered to LLVM IR and "
            "executed symbolically; component k of each result must equal the scalar definition on component k. Integers are bit-precise "
            "(bit-vectors, or integers with explicit mod 2^w), floats are IEEE-754 FloatingPoint terms or uninterpreted operations.",
            "DESIGN.md 3/C04",
            "quick: element types uint8/int32/float x shapes 2,3,4 (+padded 3); thorough: all 10 element types; signed inputs restricted so that "
            "+ - * cannot overflow; NaN excluded for comparison families; operator<< text outside the claim; loop-free kernels (no unwinding bound)",
            "symbolic execution of LLVM IR into SMT (z3 bit-vector / floating-point / uninterpreted functions), native replay"),
    "C06": ("other",
            "SMT verdicts (z3 nlsat) over all real-valued inputs: the LinearSpace/AffineSpace/Quaternion code is lowered to LLVM IR and executed with "
            "floats as exact reals; each algebraic law is asserted against an independent textbook formula, on every branch "
            "(all four quaternion-from-matrix branches, both frame() branches). Decides 'right formula on every branch'; rounding-error magnitude is not decided.",
            "DESIGN.md 3/C06",
            "REAL mode (exact reals; rcpss/rsqrtss idealised as exact; sin/cos constrained by s^2+c^2=1 and stated double-angle links); "
            "preconditions det != 0 / unit vectors / unit quaternions; slerp only towards the identity rotation (general target: no verdict), orthogonal() convergence not covered; float (and padded vec3fa in thorough) instantiations",
            "symbolic execution of LLVM IR into SMT (z3 nonlinear real arithmetic), compositional cuts, native replay"),
    "C05": ("other",
            "SMT verdicts (z3) over all boxes, points, rays and affine maps: range.h/box.h/AffineSpace.h lowered to LLVM IR and executed symbolically; "
            "set predicates bit-precisely (IEEE floats incl. +-inf, int32), xfmBounds containment/tightness and intersectRayBox exactness over exact reals, per axis.",
            "DESIGN.md 3/C05",
            "NaN excluded; int32 coordinates within +-1e9; xfmBounds/intersectRayBox: exact reals (rounding not decided), non-axis-parallel rays (|d|>=1e-30); "
            "dimensions 1-4 (quick: a subset of instantiations); fromString/operator<< outside",
            "symbolic execution of LLVM IR into SMT (z3 floating-point / bit-vector / nonlinear real arithmetic), native replay"),
    "C07": ("other",
            "SMT verdicts (z3) over all inputs of the scalar kernels: rcp/rsqrt accuracy <= 2^-20 under the standard rounding-error model with the Intel SDM "
            "contract for rcpss/rsqrtss, in both the SIMD and RKCOMMON_NO_SIMD builds; rcp_safe finite/sign for every finite x; clamp, sign, lerp, deg2rad, madd, "
            "divRoundUp (8 integer types), 8-bit/sRGB packing (monotone, saturating, per channel) bit-precisely; distributions' range over exact reals.",
            "DESIGN.md 3/C07",
            "rcpss/rsqrtss and powf/roundf by contract (not the silicon table / libm); rounding model (1+d) per float op, normal range; -0.0 and denormals read numerically "
            "in rcp_safe; distribution range over exact reals with machine words abstracted to their range; reproducibility shown for the first two draws",
            "symbolic execution of LLVM IR into SMT (z3 nonlinear real arithmetic with rounding-error variables, floating-point, bit-vectors), native replay"),
    "C17": ("other",
            "Index maps: SMT verdicts (z3) over ALL extents with total <= 2^63-1 - flatten/reshape and longIndex/coordsOf are mutually inverse, in range, "
            "equal to their unbounded-integer values and monotone; iterator algebra. Adaptors: cbmc bounded model checking of for_each, ActualArray3D, "
            "IndexShifted/SubBox/Accessor adaptors and getValueRange with symbolic contents, coordinates, regions and shifts.",
            "DESIGN.md 3/C17",
            "3-D sequence axes < 2^21; adaptors on a 2x2x3 volume, for_each regions inside 3x3x3; MultiSlice in the thorough tier only; Repeater::get and loadRAW/mmapRAW outside; "
            "integers encoded with explicit mod 2^64 and Euclidean div/mod witnesses; lemma cuts proved in their own obligations",
            "symbolic execution of LLVM IR into SMT (z3 nonlinear integer arithmetic) + bounded model checking (cbmc)"),
    "C08": ("model_checking",
            "cbmc bounded model checking of the real IntrusivePtr/RefCountedObject code: all operation histories (copy/move/raw/null assignment, copy/move/converting "
            "construction, explicit refInc/refDec, creator release) over 2 objects and 3 handles with a ghost count of references; destruction exactly once at the last "
            "release, no access to freed memory; concurrent use decided as a lockset data-race obligation on the object's bytes (atomic accesses share a pseudo-lock).",
            "DESIGN.md 3/C08",
            "history length 3 (quick) / 4 (thorough); self-move-assignment not exercised; concurrency: data-race freedom by lockset discipline in a sequential run "
            "(atomicity violations that are not data races, >2 threads and weak memory are outside); TSan confirms race counterexamples natively",
            "bounded model checking (cbmc) of LLVM-IR-derived C with ghost reference model and lockset race instrumentation"),
    "C12": ("model_checking",
            "Three units over TransactionalValue/TransactionalBuffer. cbmc: every operation-level interleaving of producers and consumer up to the bound against a reference model, plus the obligation that every "
            "access to the shared object happens under its mutex (lockset instrumentation of all IR loads/stores on the object's bytes) - this decides data races. vp/llpath.py (two units): the real std::mutex code "
            "with real producer threads under EVERY schedule with a bounded number of preemptions, also inside operations: values never torn / always assigned ones / in order, update() true exactly when newer, last value "
            "delivered; each pushed element in exactly one batch, in its producer's order.",
            "DESIGN.md 3/C12",
            "cbmc: 4 (quick) / 6 (thorough) scheduled operations, <= 2 producers, int payload; llpath: producer with 2 assignments vs 6 update/get rounds, <= 3 / 4 preemptions; 2 producers x 2 pushes, <= 2 / 3 preemptions; sequential consistency",
            "bounded model checking (cbmc) with lockset race instrumentation + symbolic execution with bounded schedule exploration (vp/llpath.py); TSan / widened-window native replay"),
    "C19": ("model_checking",
            "Symbolic execution (vp/llpath.py) of the real Observable/Observer/TimeStamp code: every history of create/destroy observer, notify, poll, destroy observable up to the bound against a "
            "per-observer pending-flag reference, with dangling pointers as heap obligations (use after free); three fixed lifecycles with symbolic notify/poll patterns; TimeStamp from a symbolic "
            "counter value; two real threads x (create+renew) under every schedule with bounded preemptions: values distinct, per-thread increasing.",
            "DESIGN.md 3/C19",
            "histories of 4 (quick) / 6 (thorough) actions, 1 observable, <= 3 observers; notify/poll patterns of length 2 / 3; 2 threads, <= 2 / 4 preemptions (atomic loads included as preemption points), sequential consistency; counter wrap at 2^64 and copying Observers outside",
            "symbolic execution of LLVM IR with z3 and bounded schedule exploration (vp/llpath.py), native sanitizer replay"),
    "C20": ("model_checking",
            "cbmc bounded model checking of SaveImage.h for all six writers and every image size up to the bound with symbolic pixel values: header format string and dimensions, payload length, "
            "decoded pixels (row flip, channel selection), file closed, and no read outside the width x height pixels given (exact heap bounds). stdio is replaced by a capturing model.",
            "DESIGN.md 3/C20",
            "image sizes 1..2 (quick) / 1..3 (thorough) in each dimension; eight two-image histories (second call independent of the first); tracing::saveLog and event recording NOT covered (std::ofstream/unordered_map/chrono internals cannot be encoded within reach)",
            "bounded model checking (cbmc) of LLVM-IR-derived C with an stdio capture model, ASan replay"),
    "C03": ("model_checking",
            "Two units over the real AsyncLoop code. (1) vp/llpath.py: the real std::thread / std::mutex / std::condition_variable code executed on the engine's thread model, scenario "
            "[stop] start - wait for a body - stop - [start again] - destroy under EVERY schedule with a bounded number of preemptions (controller may be suspended mid-operation): body runs within "
            "bounded time after start() (no lost wake-up / deadlock), nothing in progress or beginning after stop() returned, destructor joins. (2) cbmc: the loop thread runs as the main flow and every "
            "sequence of complete controller operations is injected at its RKCOMMON_VERIF scheduling points and while it is blocked in condition_variable::wait; ghost state decides P1-P3.",
            "DESIGN.md 3/C03",
            "THREAD launch; llpath: <= 2 (quick) / 3 (thorough) preemptions placed before synchronisation calls, atomic stores / read-modify-writes, condition waits and after mutex releases; cbmc: <= 1 / 2 controller "
            "operations after an optional initial start(), <= 1/2 body invocations; sequential consistency; no spurious wake-ups; TASK launch's TBB execution outside",
            "symbolic execution with bounded schedule exploration (vp/llpath.py) + bounded model checking (cbmc) with schedule injection at hook points; native replay with widened windows"),
    "C09": ("model_checking",
            "cbmc bounded model checking of the real Optional<T>/Any code for every copy/move/assign/construct path with engaged and empty sources and targets (each combination its own "
            "obligation, payload values symbolic), value-level operations, comparisons and conversions, with a ghost lifetime map on an instrumented payload (constructor only on dead storage, "
            "destructor/assignment/read only on live objects, everything destroyed exactly once) and alignment of the storage; Any::get<T> throws exactly for wrong type / empty.",
            "DESIGN.md 3/C09",
            "payloads: int/long (convertible pair), lifetime-instrumented P, over-aligned PA; std::string/vector payloads represented by P; engaged/empty combinations enumerated per entry; "
            "error-message formatting (stringstream, demangle) opaque; getEnvVar and printed text outside",
            "bounded model checking (cbmc) with ghost lifetime instrumentation, ASan/UBSan replay"),
    "C10": ("model_checking",
            "Symbolic execution (vp/llpath.py) of the real FlatMap<int,int> code (std::vector, std::stable_partition as real header code): one operation (operator[] write/read-insert, at, erase, clear, contains) "
            "with a symbolic key from an arbitrary valid state of N entries with symbolic distinct keys and values, compared with an insertion-ordered reference map incl. iteration and at_index order - an "
            "inductive step covering histories of any length within the size bound; ParameterizedObject scenarios and all bounded histories (set int/float, remove, typed reads, hasParam, reset) with symbolic values against a reference list (order, query flags, results).",
            "DESIGN.md 3/C10",
            "state size N <= 5; int keys/values (all 2^32 each); ParameterizedObject: three fixed scenarios plus every history of 3 actions over names a,b,c (thorough: 4 actions over a,b), int/float values; allocation never fails",
            "symbolic execution of LLVM IR with z3 (vp/llpath.py), inductive one-step harness with reference model, native sanitizer replay"),
    "C14": ("model_checking",
            "cbmc bounded model checking of aligned_allocator<T,64>::allocate/deallocate for every 64-bit element count (n=0, length_error beyond max_size without an allocation call, exact "
            "n*sizeof(T) bytes without wrap, bad_alloc on null, aligned and usable result), alignedMalloc/alignedFree over every power-of-two alignment 1..4096 with posix_memalign by contract "
            "(its precondition is an obligation), and AlignedVector<int> operations (push_back/resize/reserve/shrink_to_fit/swap/assign) from states of N elements: data() aligned, elements preserved.",
            "DESIGN.md 3/C14",
            "non-TBB back end by cbmc with a posix_memalign contract stub; TBB configuration by llpath with tbbmalloc replaced by its documented contract (13 alignments x 14 sizes, 3 live blocks; tbbmalloc internals outside); alignment judged on the offset within the returned block; vector states N <= 2 (quick) / 3",
            "bounded model checking (cbmc) of LLVM-IR-derived C with contract stubs; symbolic execution of LLVM IR with z3 (vp/llpath.py) for the TBB configuration"),
}

NOT_YET = "check not yet built (work in progress, see DESIGN.md section 7)"
NA = {}


def main():
    props = [json.loads(l) for l in open(os.path.join(ROOT, "properties.jsonl"))]
    checks = []
    na = []
    for p in props:
        pid = p["id"]
        if pid in CLAIMED:
            cat, text, ref, note, tech = CLAIMED[pid]
            checks.append({
                "property_id": pid,
                "quick_cmd": "python3-vt vp/check.py %s --tier quick" % pid,
                "thorough_cmd": "python3-vt vp/check.py %s --tier thorough" % pid,
                "evidence_file": "evidence/%s.json" % pid,
                "replay_cmd_template": "python3-vt vp/replay.py %s {path}" % pid,
                "engine": "vp",
                "level_claimed": {"category": cat, "text": text, "design_ref": ref},
                "level_note": note,
                "technique": tech,
            })
        else:
            na.append({"property_id": pid, "reason": NA.get(pid, NOT_YET)})
    m = {
        "version": 1,
        "setup_cmd": "python3-vt vp/selftest.py",
        "hooks": {
            "guard": "RKCOMMON_VERIF",
            "enable": "checks compile harness TUs (harness/*.cpp) against /repo's working tree with clang++-14 -DRKCOMMON_VERIF; no build of /repo/_build is used",
            "baseline_off_cmd": "cmake --build /repo/_build && ctest --test-dir /repo/_build -j8 --timeout 900",
            "source_commits": json.load(open(os.path.join(ROOT, "vp", "hook_commits.json"))) if os.path.exists(os.path.join(ROOT, "vp", "hook_commits.json")) else [],
            "add_only": True,
        },
        "engines": [{"name": "vp", "path": "vp/check.py",
                     "serves_properties": sorted(CLAIMED),
                     "kind_free_text": "clang++-14 -O1 LLVM IR of harness TUs over the real headers/sources -> own IR front end (vp/llir.py) -> "
                                       "ll2c (IR->C) + cbmc 6.11 bounded model checking, or ll2smt (IR->SMT) + z3, or llpath (path-forking symbolic execution of the IR with z3, "
                                       "thread model with bounded schedule exploration); native ASan/UBSan/TSan replay"}],
        "checks": checks,
        "notes": "All checks rebuild their encodings from /repo's working tree on every run. Exit 2 = machinery error (never used to hide a violation).",
        "not_applicable": na,
    }
    json.dump(m, open(os.path.join(ROOT, "MANIFEST.json"), "w"), indent=1)
    try:
        import jsonschema
        jsonschema.validate(m, json.load(open("/root/.vp/MANIFEST.schema.json")))
        print("MANIFEST ok: %d checks, %d not_applicable" % (len(checks), len(na)))
    except ImportError:
        print("written (jsonschema not available)")


if __name__ == "__main__":
    main()
