#!/usr/bin/env python3
"""llpath: path-forking symbolic executor over LLVM-14 IR (KLEE-style), deciding with z3.

Every value is either a Python int / float (concrete) or a z3 term (symbolic).  Pointers are 64-bit
integers into a flat address space of objects with red zones; memory is byte-granular.  A branch on a
symbolic condition asks the solver which sides are feasible under the path condition and forks.
vp_assert(c) is an obligation: 'pc and not c' is handed to the solver; sat = violation (model = inputs).
Memory errors (outside every live object, freed, null), division by zero, uncaught exceptions, abort,
libstdc++ assertion failures and unreachable are built-in obligations.
C++ exceptions are executed (invoke / landingpad / resume, two-phase search by type).
"""
import sys, os, struct, time, json, bisect, re
import z3
sys.path.insert(0, os.path.dirname(os.path.abspath(__file__)))
import llir

sys.setrecursionlimit(10000)


class Inconclusive(Exception):
    pass


class Fork(Exception):
    """re-execute the current instruction in one successor state per alternative constraint"""
    def __init__(self, alts):
        self.alts = alts  # list of (z3 bool, fact_key or None, fact_val, model or None)


class PathEnd(Exception):
    def __init__(self, why):
        self.why = why


class Obj:
    __slots__ = ("base", "size", "data", "kind", "alive", "name", "owner", "ro", "scoped")

    def __init__(self, base, size, kind, name, owner, data=None, ro=False):
        self.base, self.size, self.kind, self.name, self.owner, self.ro = base, size, kind, name, owner, ro
        self.data = data if data is not None else [None] * size
        self.alive = True
        self.scoped = False      # stack object between llvm.lifetime.end and the next lifetime.start

    def clone(self, owner):
        o = Obj(self.base, self.size, self.kind, self.name, owner, list(self.data), self.ro)
        o.alive = self.alive
        o.scoped = self.scoped
        return o


class Frame:
    __slots__ = ("fn", "block", "ip", "vals", "prev", "allocas", "callins")

    def __init__(self, fn, callins=None):
        self.fn = fn
        self.block = fn.blocks[0]
        self.ip = 0
        self.vals = {}
        self.prev = None
        self.allocas = []
        self.callins = callins

    def clone(self):
        f = Frame.__new__(Frame)
        f.fn, f.block, f.ip, f.prev, f.callins = self.fn, self.block, self.ip, self.prev, self.callins
        f.vals = dict(self.vals)
        f.allocas = list(self.allocas)
        return f


_sid = [0]


def new_sid():
    _sid[0] += 1
    return _sid[0]


class State:
    def __init__(self):
        self.id = new_sid()
        self.mem = {}
        self.bases = []
        self.frames = []
        self.pc = []
        self.facts = {}
        self.known = {}
        self.model = None
        self.inputs = []      # (name, var or int, bits)
        self.events = []
        self.nothrow = False
        self.exc = None       # in-flight exception (obj, tname)
        self.caught = []      # stack of caught exceptions
        self.next_addr = 0x20000000
        self.steps = 0
        self.extra = {}       # model-private state (copied shallowly on fork)
        self.threads = None   # list of Thread records once a second thread exists (self.frames is the running thread's stack)
        self.cur = 0
        self.preempt_left = 0
        self.slice = 0
        self.sched_trace = []

    def clone(self):
        s = State()
        s.mem = dict(self.mem)
        s.bases = list(self.bases)
        s.frames = [f.clone() for f in self.frames]
        s.pc = list(self.pc)
        s.facts = dict(self.facts)
        s.known = dict(self.known)
        s.model = self.model
        s.inputs = list(self.inputs)
        s.events = list(self.events)
        s.nothrow = self.nothrow
        s.exc = self.exc
        s.caught = list(self.caught)
        s.next_addr = self.next_addr
        s.steps = self.steps
        s.extra = dict((k, (list(v) if isinstance(v, list) else dict(v) if isinstance(v, dict) else v)) for k, v in self.extra.items())
        s.cur = self.cur
        s.preempt_left = self.preempt_left
        s.slice = self.slice
        s.sched_trace = list(self.sched_trace)
        if self.threads is not None:
            s.threads = []
            for i, t in enumerate(self.threads):
                t2 = dict(t)
                if i == self.cur:
                    t2["frames"] = s.frames
                else:
                    t2["frames"] = [f.clone() for f in t["frames"]]
                s.threads.append(t2)
        # objects owned by the old id are shared from now on
        self.id = new_sid()
        return s


def mask(b):
    return (1 << b) - 1


def sgn(v, b):
    return v - (1 << b) if v >> (b - 1) else v


def is_sym(v):
    return isinstance(v, z3.ExprRef)


def bvv(v, bits):
    if isinstance(v, int):
        return z3.BitVecVal(v, bits)
    if z3.is_bool(v):
        return z3.If(v, z3.BitVecVal(1, bits), z3.BitVecVal(0, bits))
    return v


def simp(e):
    """simplify; return python int for numerals / 0,1 for boolean constants"""
    e = z3.simplify(e)
    if z3.is_bv_value(e):
        return e.as_long()
    if z3.is_true(e):
        return 1
    if z3.is_false(e):
        return 0
    return e


def as_bool(v):
    """i1 value -> python bool or z3 Bool"""
    if isinstance(v, int):
        return bool(v & 1)
    if z3.is_bool(v):
        return v
    return z3.Extract(0, 0, v) == z3.BitVecVal(1, 1)


F32, F64, RNE = z3.Float32(), z3.Float64(), z3.RNE()


def f32round(x):
    try:
        return struct.unpack("<f", struct.pack("<f", x))[0]
    except OverflowError:
        return float("inf") if x > 0 else float("-inf")


STD_BASES = {
    "_ZTISt13runtime_error": ["_ZTISt9exception"], "_ZTISt11logic_error": ["_ZTISt9exception"],
    "_ZTISt12out_of_range": ["_ZTISt11logic_error"], "_ZTISt12length_error": ["_ZTISt11logic_error"],
    "_ZTISt16invalid_argument": ["_ZTISt11logic_error"], "_ZTISt12domain_error": ["_ZTISt11logic_error"],
    "_ZTISt11range_error": ["_ZTISt13runtime_error"], "_ZTISt14overflow_error": ["_ZTISt13runtime_error"],
    "_ZTISt15underflow_error": ["_ZTISt13runtime_error"], "_ZTISt9bad_alloc": ["_ZTISt9exception"],
    "_ZTISt20bad_array_new_length": ["_ZTISt9bad_alloc"], "_ZTISt8bad_cast": ["_ZTISt9exception"],
    "_ZTISt10bad_typeid": ["_ZTISt9exception"], "_ZTISt17bad_function_call": ["_ZTISt9exception"],
    "_ZTISt12future_error": ["_ZTISt11logic_error"], "_ZTISt12system_error": ["_ZTISt13runtime_error"],
    "_ZTISt9exception": [],
}


class Engine:
    def __init__(self, mod, opaque=(), tolerate=(), max_steps=3000000, max_paths=20000, wall=900, replay=None, trace=False, solver_timeout_ms=20000):
        self.m = mod
        self.opaque = [re.compile(r) for r in opaque]
        self.tolerate = [re.compile(r) for r in tolerate]
        self.max_steps, self.max_paths, self.wall = max_steps, max_paths, wall
        self.replay = replay
        self.replay_pos = 0
        self.trace = trace
        self.gaddr = {}
        self.gobj = {}
        self.gbases = []
        self.gnext = 0x10000000
        self.faddr = {}
        self.fbyaddr = {}
        self.fnext = 0x1000
        self.typeids = {}
        self.nvars = 0
        self.queries = 0
        self.solver_time = 0.0
        self.solver = z3.Solver()
        self.solver.set("timeout", solver_timeout_ms)
        self.violations = []
        self.viol_keys = set()
        self.reach = {}
        self.paths = 0
        self.path_ends = {}
        self.funcs_encoded = set()
        self.obligations = 0
        self.assumptions = set()
        self.t0 = time.time()
        self.total_steps = 0
        self.cur_ins = None
        self.explore = False
        self.pp_max = 4
        self.explore_loads = False
        self.time_slice = 400
        self.cur_tid = 1
        self.models = MODELS
        self.model_res = MODEL_RES

    # ------------------------------------------------------------------ solver
    def fresh(self, prefix, bits):
        self.nvars += 1
        return z3.BitVec("%s_%d" % (prefix, self.nvars), bits)

    def check(self, st, extra):
        """sat / unsat / unknown for pc + extra; returns (result, model)"""
        self.queries += 1
        t = time.time()
        s = self.solver
        s.push()
        try:
            for c in st.pc:
                s.add(c)
            for c in extra:
                s.add(c)
            r = s.check()
            m = s.model() if r == z3.sat else None
        finally:
            s.pop()
            self.solver_time += time.time() - t
        if r == z3.unknown:
            raise Inconclusive("solver returned unknown (%s)" % s.reason_unknown())
        return r, m

    def feasible(self, st, c):
        if st.model is not None:
            try:
                if z3.is_true(st.model.eval(c, model_completion=True)):
                    return True, st.model
            except z3.Z3Exception:
                pass
        r, m = self.check(st, [c])
        return r == z3.sat, m

    def decide(self, st, cond):
        """definite truth value of an i1 / Bool under the path condition, forking when both are feasible"""
        if isinstance(cond, int):
            return bool(cond & 1)
        c = as_bool(cond)
        if isinstance(c, bool):
            return c
        c = z3.simplify(c)
        if z3.is_true(c):
            return True
        if z3.is_false(c):
            return False
        k = c.get_id()
        f = st.facts.get(k)
        if f is not None and f[0].eq(c):
            return f[1]
        nc = z3.Not(c)
        tf, tm = self.feasible(st, c)
        ff, fm = self.feasible(st, nc)
        if tf and ff:
            raise Fork([(c, (k, c, True), tm), (nc, (k, c, False), fm)])
        if tf:
            st.facts[k] = (c, True)
            return True
        if ff:
            st.facts[k] = (c, False)
            return False
        raise PathEnd("infeasible")

    def concretize(self, st, e, what, limit=64):
        """a concrete value for symbolic bit-vector e, forking over all feasible values (bounded)"""
        if isinstance(e, int):
            return e
        e2 = simp(e)
        if isinstance(e2, int):
            return e2
        k = e2.get_id()
        kn = st.known.get(k)
        if kn is not None and kn[0].eq(e2):
            return kn[1]
        vals = []
        excl = []
        while True:
            r, m = self.check(st, excl)
            if r != z3.sat:
                break
            v = m.eval(e2, model_completion=True).as_long()
            vals.append((v, m))
            excl.append(e2 != z3.BitVecVal(v, e2.size()))
            if len(vals) > limit:
                raise Inconclusive("more than %d feasible values for %s" % (limit, what))
        if not vals:
            raise PathEnd("infeasible")
        if len(vals) == 1:
            st.known[k] = (e2, vals[0][0])
            return vals[0][0]
        raise Fork([(e2 == z3.BitVecVal(v, e2.size()), ("known", k, e2, v), m) for v, m in vals])

    # ------------------------------------------------------------------ violations
    def inputs_of(self, st, model):
        out = []
        for (name, var, bits) in st.inputs:
            if isinstance(var, int):
                out.append(var)
            elif model is None:
                out.append(0)
            else:
                v = model.eval(var, model_completion=True)
                if z3.is_fp(v) or z3.is_fprm(v):
                    v = model.eval(z3.fpToIEEEBV(var), model_completion=True)
                out.append(v.as_long())
        return out

    def violation(self, st, label, kind, model=None):
        if model is None:
            model = st.model
            if st.pc and model is None:
                r, model = self.check(st, [])
        where = ""
        if st.frames:
            where = st.frames[-1].fn.name
        key = (label, where)
        if key in self.viol_keys:
            return
        self.viol_keys.add(key)
        ins = ""
        if st.frames:
            fr = st.frames[-1]
            ins = str(fr.block.instrs[fr.ip])[:200] if fr.ip < len(fr.block.instrs) else ""
        self.violations.append(dict(label=label, kind=kind, inputs=self.inputs_of(st, model), where=where, ins=ins,
                                    stack=[f.fn.name for f in st.frames][-8:], schedule=list(st.sched_trace)[-60:], events=st.events[-12:] if self.replay is None else []))
        if os.environ.get("VP_PATH_DEBUG"):
            sys.stderr.write("VIOLATION %s in %s at %s\n" % (label, [f.fn.name for f in st.frames][-5:], ins))

    def fail_path(self, st, label, kind):
        """definite error on this (feasible) path: record and end the path"""
        self.obligations += 1
        if self.replay is not None:
            st.events.append("VP_ASSERT_FAIL %s" % label)
        self.violation(st, label, kind)
        raise PathEnd("error:" + label)

    # ------------------------------------------------------------------ addresses, globals
    def func_addr(self, name):
        a = self.faddr.get(name)
        if a is None:
            a = self.fnext
            self.fnext += 16
            self.faddr[name] = a
            self.fbyaddr[a] = name
        return a

    def global_addr(self, name):
        a = self.gaddr.get(name)
        if a is not None:
            return a
        g0 = self.m.globals.get(name)
        if g0 is not None and g0.tls:
            key = "%s$tls%d" % (name, self.cur_tid)
            a = self.gaddr.get(key)
            if a is None:
                a = self._alloc_global(name, g0, key)
            return a
        if name in self.m.aliases:
            tgt = self.m.aliases[name]
            tv = tgt[1] if isinstance(tgt, tuple) else tgt
            a = self.const(tv) if isinstance(tv, llir.Val) else self.global_addr(tv)
            self.gaddr[name] = a
            return a
        if name in self.m.funcs:
            return self.func_addr(name)
        g = self.m.globals.get(name)
        if g is None:
            raise Inconclusive("unknown global @%s" % name)
        return self._alloc_global(name, g, name)

    def _alloc_global(self, name, g, key):
        try:
            size = self.m.sizeof(g.ty)
        except llir.IRError:
            size = 64
        if g.init is None and size < 64:
            size = 64
        al = max(g.align or 16, 16)
        base = (self.gnext + al - 1) // al * al
        self.gnext = base + size + 64
        self.gaddr[key] = base
        o = Obj(base, size, "global", "@" + key, 0, ro=bool(g.const))
        self.gobj[base] = o
        self.gbases.append(base)
        if g.init is not None:
            data = [0] * size
            self.flatten(self.const(g.init), g.ty, data, 0)
            o.data = data
        else:
            o.data = [0] * size
            if name.startswith("_ZTI") and size >= 16:
                # type_info object of a type defined in libstdc++.so / libsupc++: { vptr, name }
                nm = name[4:].encode() + b"\0"
                nb = (self.gnext + 15) // 16 * 16
                self.gnext = nb + len(nm) + 64
                self.gobj[nb] = Obj(nb, len(nm), "global", "@_ZTS" + name[4:], 0, data=list(nm), ro=True)
                self.gbases.append(nb)
                o.data[0:8] = list(self.fake_vptr().to_bytes(8, "little"))
                o.data[8:16] = list(nb.to_bytes(8, "little"))
            if name.startswith("_ZTT"):
                # VTT of a libstdc++.so class: every entry leads to the all-zero table
                fv = list(self.fake_vptr().to_bytes(8, "little"))
                o.data = fv * (size // 8) + [0] * (size % 8)
            if name in ("_ZSt4cout", "_ZSt4cerr", "_ZSt4clog", "_ZSt3cin"):
                o.ro = False
                o.data[0:8] = list(self.fake_vptr().to_bytes(8, "little"))
                if size >= 248:
                    o.data[240:248] = list(self.fake_ctype().to_bytes(8, "little"))
        return base

    def fake_ctype(self):
        """stand-in for the std::ctype<char> facet of an opaque stream: widen/narrow caches marked valid (identity-ish tables)"""
        a = self.gaddr.get("$fakectype")
        if a is None:
            base = (self.gnext + 63) // 64 * 64
            self.gnext = base + 1024 + 64
            o = Obj(base, 1024, "global", "opaque ctype facet", 0, data=[1] * 1024, ro=True)
            self.gobj[base] = o
            self.gbases.append(base)
            a = self.gaddr["$fakectype"] = base
        return a

    def fake_vptr(self):
        """address inside an all-zero table: virtual-base offsets read through it are 0 (opaque iostream objects)"""
        a = self.gaddr.get("$fakevtbl")
        if a is None:
            base = (self.gnext + 63) // 64 * 64
            self.gnext = base + 4096 + 64
            o = Obj(base, 4096, "global", "opaque iostream vtable", 0, data=[0] * 4096, ro=True)
            self.gobj[base] = o
            self.gbases.append(base)
            a = self.gaddr["$fakevtbl"] = base + 2048
        return a

    def flatten(self, v, ty, out, off):
        t = self.m.resolve(ty)
        k = t.kind
        if k == "struct":
            for i, f in enumerate(t.fields):
                self.flatten(v[i], f, out, off + self.m.field_offset(t, i))
        elif k in ("array", "vector"):
            es = self.m.sizeof(t.elem)
            for i in range(t.n):
                self.flatten(v[i], t.elem, out, off + i * es)
        else:
            bs = self.to_bytes(v, t)
            out[off:off + len(bs)] = bs

    def zero_of(self, ty):
        t = self.m.resolve(ty)
        if t.kind == "struct":
            return [self.zero_of(f) for f in t.fields]
        if t.kind in ("array", "vector"):
            return [self.zero_of(t.elem) for _ in range(t.n)]
        if t.is_fp:
            return 0.0
        return 0

    def const(self, v):
        k = v.kind
        if k == "int":
            return v.v & mask(v.ty.bits)
        if k == "null":
            return 0
        if k == "global":
            return self.global_addr(v.v)
        if k in ("zero", "undef"):
            return self.zero_of(v.ty)
        if k == "fp":
            return f32round(v.v) if v.ty.kind == "float" else v.v
        if k in ("struct", "array", "vector"):
            return [self.const(o) for o in v.ops]
        if k == "cstr":
            return list(v.v)
        if k == "cexpr":
            return self.cexpr(v)
        raise Inconclusive("constant kind %s" % k)

    def cexpr(self, v):
        op = v.v
        ops = v.ops
        if op in ("bitcast", "ptrtoint", "inttoptr", "addrspacecast"):
            return self.const(ops[0])
        if op == "getelementptr":
            base = self.const(ops[0])
            return self.gep_off(base, v.extra["srcty"], [self.const(o) for o in ops[1:]], ops[1:])
        if op in ("add", "sub", "mul", "and", "or", "xor", "shl", "lshr"):
            a, b = self.const(ops[0]), self.const(ops[1])
            bits = v.ty.bits
            r = {"add": a + b, "sub": a - b, "mul": a * b, "and": a & b, "or": a | b, "xor": a ^ b, "shl": a << b, "lshr": a >> b}[op]
            return r & mask(bits)
        if op in ("trunc", "zext"):
            return self.const(ops[0]) & mask(v.ty.bits)
        if op == "sext":
            return sgn(self.const(ops[0]), ops[0].ty.bits) & mask(v.ty.bits)
        if op == "icmp":
            a, b = self.const(ops[0]), self.const(ops[1])
            return int({"eq": a == b, "ne": a != b}[v.extra["pred"]])
        if op == "select":
            return self.const(ops[1]) if self.const(ops[0]) else self.const(ops[2])
        raise Inconclusive("constant expression %s" % op)

    # ------------------------------------------------------------------ bytes
    def to_bytes(self, v, t):
        """scalar value of resolved type t -> list of byte values"""
        k = t.kind
        if k == "int" or k == "ptr":
            bits = 64 if k == "ptr" else t.bits
            n = self.m.sizeof(t)
            if isinstance(v, int):
                return list((v & mask(8 * n)).to_bytes(n, "little"))
            if z3.is_bool(v):
                return [z3.If(v, z3.BitVecVal(1, 8), z3.BitVecVal(0, 8))] + [0] * (n - 1)
            if bits < 8 * n:
                v = z3.ZeroExt(8 * n - bits, v)
            return [simp(z3.Extract(8 * i + 7, 8 * i, v)) for i in range(n)]
        if k in ("float", "double"):
            n = 4 if k == "float" else 8
            if isinstance(v, (float, int)):
                return list(struct.pack("<f" if n == 4 else "<d", v))
            bv = z3.fpToIEEEBV(v)
            return [simp(z3.Extract(8 * i + 7, 8 * i, bv)) for i in range(n)]
        if k == "x86_fp80":
            raise Inconclusive("x86_fp80 in memory")
        raise Inconclusive("to_bytes %s" % t)

    def from_bytes(self, bs, t):
        k = t.kind
        conc = all(isinstance(b, int) for b in bs)
        if k == "int" or k == "ptr":
            bits = 64 if k == "ptr" else t.bits
            if conc:
                return int.from_bytes(bytes(bs), "little") & mask(bits)
            e = z3.Concat(*[bvv(b, 8) for b in reversed(bs)]) if len(bs) > 1 else bvv(bs[0], 8)
            if bits < 8 * len(bs):
                e = z3.Extract(bits - 1, 0, e)
            if bits == 1:
                return simp(e == z3.BitVecVal(1, 1))
            return simp(e)
        if k in ("float", "double"):
            if conc:
                return struct.unpack("<f" if k == "float" else "<d", bytes(bs))[0]
            e = z3.Concat(*[bvv(b, 8) for b in reversed(bs)])
            return z3.fpBVToFP(z3.simplify(e), F32 if k == "float" else F64)
        raise Inconclusive("from_bytes %s" % t)

    # ------------------------------------------------------------------ memory
    def find_obj(self, st, addr):
        """object containing addr (or one past its end), else None"""
        for bases, tbl in ((st.bases, None), (self.gbases, self.gobj)):
            i = bisect.bisect_right(bases, addr) - 1
            if i >= 0:
                b = bases[i]
                o = st.mem.get(b)
                if o is None and tbl is not None:
                    o = tbl.get(b)
                if o is not None and addr <= b + o.size:
                    return o
        return None

    def wobj(self, st, o):
        if o.owner != st.id:
            o = o.clone(st.id)
            st.mem[o.base] = o
        return o

    def alloc(self, st, size, kind, name, align=16):
        base = (st.next_addr + align - 1) // align * align
        st.next_addr = base + size + 64
        o = Obj(base, size, kind, name, st.id)
        st.mem[base] = o
        st.bases.append(base)
        return base

    def access(self, st, addr, n, what):
        """resolve a concrete-or-symbolic address for an n-byte access: (obj, offset); reports errors"""
        if is_sym(addr):
            addr = simp(addr)
        if is_sym(addr):
            addr = self.concretize(st, addr, "address of a " + what)
        if addr == 0 or addr < 0x1000:
            self.fail_path(st, "MEM:%s through a null pointer" % what, "MEM")
        o = self.find_obj(st, addr)
        if o is None or addr + n > o.base + o.size:
            self.fail_path(st, "MEM:%s of %d bytes outside every live object%s" % (what, n, (" (%d bytes past the start of %s, size %d)" % (addr - o.base, o.name, o.size)) if o else ""), "MEM")
        if o.scoped:
            fn = st.frames[-1].fn.name if st.frames else "?"
            self.fail_path(st, "MEM:use after scope in %s: %s of %s after its lifetime ended" % (fn, what, o.name), "MEM")
        if not o.alive:
            fn = st.frames[-1].fn.name if st.frames else "?"
            label = "MEM:use after %s in %s: %s of %s" % ("free" if o.kind == "heap" else "scope", fn, what, o.name)
            if any(rx.search(label) for rx in self.tolerate):
                # a listed known finding: recorded once, execution continues on the stale bytes so that the rest of the path is still checked
                self.obligations += 1
                self.violation(st, label, "MEM")
            else:
                self.fail_path(st, label, "MEM")
        return o, addr - o.base

    def load_bytes(self, st, addr, n):
        o, off = self.access(st, addr, n, "read")
        bs = o.data[off:off + n]
        if any(b is None for b in bs):
            o = self.wobj(st, o)
            for i in range(n):
                if o.data[off + i] is None:
                    o.data[off + i] = self.fresh("undef", 8)
            bs = o.data[off:off + n]
        return bs

    def store_bytes(self, st, addr, bs):
        o, off = self.access(st, addr, len(bs), "write")
        if o.ro:
            self.fail_path(st, "MEM:write to constant %s" % o.name, "MEM")
        o = self.wobj(st, o)
        o.data[off:off + len(bs)] = bs

    def load(self, st, addr, ty):
        t = self.m.resolve(ty)
        k = t.kind
        if k == "struct":
            return [self.load(st, self.padd(addr, self.m.field_offset(t, i)), f) for i, f in enumerate(t.fields)]
        if k in ("array", "vector"):
            es = self.m.sizeof(t.elem)
            return [self.load(st, self.padd(addr, i * es), t.elem) for i in range(t.n)]
        n = self.m.sizeof(t)
        if is_sym(addr):
            r = self.sym_load(st, addr, n, t)
            if r is not None:
                return r
        return self.from_bytes(self.load_bytes(st, addr, n), t)

    def sym_load(self, st, addr, n, t):
        """read through an address with a symbolic offset inside one small object: ite chain over the offsets"""
        addr = simp(addr)
        if isinstance(addr, int):
            return None
        ok, m = self.feasible(st, z3.BoolVal(True))
        if m is None:
            r, m = self.check(st, [])
        a0 = m.eval(addr, model_completion=True).as_long()
        o = self.find_obj(st, a0)
        if o is None or not o.alive or o.size > 512:
            return None
        lo, hi = o.base, o.base + o.size - n
        self.obligations += 1
        inb = z3.And(z3.UGE(addr, z3.BitVecVal(lo, 64)), z3.ULE(addr, z3.BitVecVal(hi, 64)))
        r, vm = self.check(st, [z3.Not(inb)])
        if r == z3.sat:
            a1 = vm.eval(addr, model_completion=True).as_long()
            o1 = self.find_obj(st, a1)
            if o1 is not None and o1.alive and a1 + n <= o1.base + o1.size:
                return None     # a pointer selected among several objects: resolved by forking over its values
            self.violation(st, "MEM:read of %d bytes at a symbolic offset can leave %s (size %d)" % (n, o.name, o.size), "MEM", vm)
            st.pc.append(inb)
            st.model = None
        res = None
        for off in range(o.size - n, -1, -1):
            if z3.is_false(z3.simplify(z3.substitute(inb, (addr, z3.BitVecVal(lo + off, 64))))):
                continue
            v = self.from_bytes(self.load_bytes(st, lo + off, n), t)
            if res is None:
                res = v
            else:
                c = addr == z3.BitVecVal(lo + off, 64)
                if t.kind in ("float", "double"):
                    v2 = v if is_sym(v) else z3.FPVal(v, F32 if t.kind == "float" else F64)
                    r2 = res if is_sym(res) else z3.FPVal(res, F32 if t.kind == "float" else F64)
                    res = z3.If(c, v2, r2)
                else:
                    bits = 64 if t.kind == "ptr" else t.bits
                    if bits == 1:
                        res = z3.If(c, as_bool(v) if not isinstance(v, int) else z3.BoolVal(bool(v)), as_bool(res) if not isinstance(res, int) else z3.BoolVal(bool(res)))
                    else:
                        res = z3.If(c, bvv(v, bits), bvv(res, bits))
        return simp(res) if res is not None and not z3.is_fp(res) else res

    def store(self, st, addr, v, ty):
        t = self.m.resolve(ty)
        k = t.kind
        if k == "struct":
            for i, f in enumerate(t.fields):
                self.store(st, self.padd(addr, self.m.field_offset(t, i)), v[i], f)
            return
        if k in ("array", "vector"):
            es = self.m.sizeof(t.elem)
            for i in range(t.n):
                self.store(st, self.padd(addr, i * es), v[i], t.elem)
            return
        self.store_bytes(st, addr, self.to_bytes(v, t))

    def padd(self, a, off):
        if off == 0:
            return a
        if isinstance(a, int):
            return (a + off) & mask(64) if isinstance(off, int) else simp(z3.BitVecVal(a, 64) + off)
        return simp(a + bvv(off, 64))

    def gep_off(self, base, srcty, idx_vals, idx_ops):
        t = srcty
        first = True
        off = 0
        for iv, ix in zip(idx_vals, idx_ops):
            if first:
                es = self.m.sizeof(t)
                first = False
            else:
                rt = self.m.resolve(t)
                if rt.kind == "struct":
                    off = self.iadd64(off, self.m.field_offset(rt, iv if isinstance(iv, int) else ix.v))
                    t = rt.fields[iv if isinstance(iv, int) else ix.v]
                    continue
                es = self.m.sizeof(rt.elem)
                t = rt.elem
            bits = ix.ty.bits if ix.ty.kind == "int" else 64
            if isinstance(iv, int):
                off = self.iadd64(off, sgn(iv, bits) * es)
            else:
                e = z3.SignExt(64 - bits, iv) if bits < 64 else iv
                off = self.iadd64(off, e * z3.BitVecVal(es, 64))
        return self.padd(base, off)

    def iadd64(self, a, b):
        if isinstance(a, int) and isinstance(b, int):
            return a + b
        return bvv(a & mask(64) if isinstance(a, int) else a, 64) + bvv(b & mask(64) if isinstance(b, int) else b, 64)

    def cstring(self, st, addr, maxlen=4096):
        out = []
        if not isinstance(addr, int) or addr == 0:
            return "?"
        for i in range(maxlen):
            o = self.find_obj(st, addr + i)
            if o is None or addr + i >= o.base + o.size:
                break
            b = o.data[addr + i - o.base]
            if not isinstance(b, int) or b == 0:
                break
            out.append(chr(b))
        return "".join(out)

    # ------------------------------------------------------------------ values
    def val(self, fr, v):
        if v.kind == "local":
            try:
                return fr.vals[v.v]
            except KeyError:
                raise Inconclusive("use of undefined %%%s in %s" % (v.v, fr.fn.name))
        return self.const(v)

    def fpv(self, v, t):
        if is_sym(v):
            return v
        return z3.FPVal(v, F32 if t.kind == "float" else F64)

    def ibin(self, st, op, a, b, bits, flags=()):
        if bits == 1 and (z3.is_bool(a) or z3.is_bool(b) or op in ("and", "or", "xor")) and (is_sym(a) or is_sym(b)):
            A = as_bool(a)
            B = as_bool(b)
            A = z3.BoolVal(A) if isinstance(A, bool) else A
            B = z3.BoolVal(B) if isinstance(B, bool) else B
            if op == "and":
                return simp(z3.And(A, B))
            if op == "or":
                return simp(z3.Or(A, B))
            if op in ("xor", "add", "sub"):
                return simp(z3.Xor(A, B))
            a, b = bvv(a, 1), bvv(b, 1)
        if isinstance(a, int) and isinstance(b, int):
            M = mask(bits)
            if op == "add":
                return (a + b) & M
            if op == "sub":
                return (a - b) & M
            if op == "mul":
                return (a * b) & M
            if op == "and":
                return a & b
            if op == "or":
                return a | b
            if op == "xor":
                return a ^ b
            if op == "shl":
                return (a << b) & M if b < bits else 0
            if op == "lshr":
                return a >> b if b < bits else 0
            if op == "ashr":
                return (sgn(a, bits) >> min(b, bits - 1)) & M
            if op in ("udiv", "urem", "sdiv", "srem"):
                if b == 0:
                    self.fail_path(st, "UB:division by zero", "UB")
                if op == "udiv":
                    return a // b
                if op == "urem":
                    return a % b
                sa, sb = sgn(a, bits), sgn(b, bits)
                q = abs(sa) // abs(sb)
                if (sa < 0) != (sb < 0):
                    q = -q
                if op == "sdiv":
                    if q > (M >> 1):
                        self.fail_path(st, "UB:signed division overflow", "UB")
                    return q & M
                return (sa - q * sb) & M
            raise Inconclusive("ibin " + op)
        A, B = bvv(a, bits), bvv(b, bits)
        if op in ("udiv", "urem", "sdiv", "srem"):
            self.obligations += 1
            if self.decide(st, B == z3.BitVecVal(0, bits)):
                self.fail_path(st, "UB:division by zero", "UB")
        r = {"add": lambda: A + B, "sub": lambda: A - B, "mul": lambda: A * B, "and": lambda: A & B, "or": lambda: A | B,
             "xor": lambda: A ^ B, "shl": lambda: A << B, "lshr": lambda: z3.LShR(A, B), "ashr": lambda: A >> B,
             "udiv": lambda: z3.UDiv(A, B), "urem": lambda: z3.URem(A, B), "sdiv": lambda: A / B, "srem": lambda: z3.SRem(A, B)}[op]()
        return simp(r)

    def icmp(self, pred, a, b, bits):
        if isinstance(a, int) and isinstance(b, int):
            if pred[0] == "s":
                a, b = sgn(a, bits), sgn(b, bits)
            return int({"eq": a == b, "ne": a != b, "ugt": a > b, "uge": a >= b, "ult": a < b, "ule": a <= b,
                        "sgt": a > b, "sge": a >= b, "slt": a < b, "sle": a <= b}[pred])
        if bits == 1:
            a, b = bvv(a, 1), bvv(b, 1)
        A, B = bvv(a, bits), bvv(b, bits)
        r = {"eq": lambda: A == B, "ne": lambda: A != B, "ugt": lambda: z3.UGT(A, B), "uge": lambda: z3.UGE(A, B),
             "ult": lambda: z3.ULT(A, B), "ule": lambda: z3.ULE(A, B), "sgt": lambda: A > B, "sge": lambda: A >= B,
             "slt": lambda: A < B, "sle": lambda: A <= B}[pred]()
        return simp(r)

    def fbin(self, op, a, b, t):
        if not is_sym(a) and not is_sym(b):
            try:
                if op == "fadd":
                    r = a + b
                elif op == "fsub":
                    r = a - b
                elif op == "fmul":
                    r = a * b
                elif op == "fdiv":
                    if b == 0:
                        r = float("nan") if (a == 0 or a != a) else (float("inf") if (a > 0) == (str(b)[0] != "-") else float("-inf"))
                    else:
                        r = a / b
                elif op == "frem":
                    import math
                    r = math.fmod(a, b)
                else:
                    raise Inconclusive(op)
            except OverflowError:
                r = float("inf")
            return f32round(r) if t.kind == "float" else r
        A, B = self.fpv(a, t), self.fpv(b, t)
        return {"fadd": lambda: z3.fpAdd(RNE, A, B), "fsub": lambda: z3.fpSub(RNE, A, B), "fmul": lambda: z3.fpMul(RNE, A, B),
                "fdiv": lambda: z3.fpDiv(RNE, A, B), "frem": lambda: z3.fpRem(A, B)}[op]()

    def fcmp(self, pred, a, b, t):
        if not is_sym(a) and not is_sym(b):
            un = (a != a) or (b != b)
            if pred in ("true", "false"):
                return int(pred == "true")
            if pred == "ord":
                return int(not un)
            if pred == "uno":
                return int(un)
            base = {"eq": a == b, "gt": a > b, "ge": a >= b, "lt": a < b, "le": a <= b, "ne": a != b}[pred[1:]]
            if pred[0] == "o":
                return int((not un) and base)
            return int(un or base)
        A, B = self.fpv(a, t), self.fpv(b, t)
        un = z3.Or(z3.fpIsNaN(A), z3.fpIsNaN(B))
        if pred == "ord":
            return simp(z3.Not(un))
        if pred == "uno":
            return simp(un)
        base = {"eq": lambda: z3.fpEQ(A, B), "gt": lambda: z3.fpGT(A, B), "ge": lambda: z3.fpGEQ(A, B), "lt": lambda: z3.fpLT(A, B),
                "le": lambda: z3.fpLEQ(A, B), "ne": lambda: z3.Not(z3.fpEQ(A, B))}[pred[1:]]()
        if pred[0] == "o":
            return simp(z3.And(z3.Not(un), base))
        return simp(z3.Or(un, base))

    def select(self, c, a, b, ty):
        if isinstance(a, list):
            t = self.m.resolve(ty)
            if t.kind == "struct":
                return [self.select(c, x, y, f) for x, y, f in zip(a, b, t.fields)]
            return [self.select(c, x, y, t.elem) for x, y in zip(a, b)]
        t = self.m.resolve(ty)
        if t.is_fp:
            return z3.If(c, self.fpv(a, t), self.fpv(b, t))
        bits = 64 if t.kind == "ptr" else t.bits
        if bits == 1:
            A, B = as_bool(a), as_bool(b)
            A = z3.BoolVal(A) if isinstance(A, bool) else A
            B = z3.BoolVal(B) if isinstance(B, bool) else B
            return simp(z3.If(c, A, B))
        return simp(z3.If(c, bvv(a, bits), bvv(b, bits)))

    def cast(self, st, op, v, sty, dty):
        s, d = self.m.resolve(sty), self.m.resolve(dty)
        if s.kind == "vector":
            return [self.cast(st, op, x, s.elem, d.elem) for x in v]
        if op in ("bitcast", "addrspacecast"):
            if s.kind == d.kind or (s.kind == "ptr" and d.kind == "ptr"):
                return v
            if isinstance(v, list) or d.kind in ("vector", "array"):
                raise Inconclusive("vector bitcast")
            return self.from_bytes(self.to_bytes(v, s), d)
        if op in ("ptrtoint", "inttoptr"):
            sb = 64 if s.kind == "ptr" else s.bits
            db = 64 if d.kind == "ptr" else d.bits
            op = "zext" if db > sb else "trunc" if db < sb else None
            if op is None:
                return v
        if op == "trunc":
            if isinstance(v, int):
                return v & mask(d.bits)
            if d.bits == 1:
                return simp(z3.Extract(0, 0, v) == z3.BitVecVal(1, 1))
            return simp(z3.Extract(d.bits - 1, 0, v))
        sbits = 64 if s.kind == "ptr" else s.bits if s.kind == "int" else None
        dbits = 64 if d.kind == "ptr" else d.bits if d.kind == "int" else None
        if op == "zext":
            if isinstance(v, int):
                return v
            return simp(z3.ZeroExt(dbits - sbits, bvv(v, sbits)))
        if op == "sext":
            if isinstance(v, int):
                return sgn(v, sbits) & mask(dbits)
            return simp(z3.SignExt(dbits - sbits, bvv(v, sbits)))
        if op in ("fpext", "fptrunc"):
            if not is_sym(v):
                return f32round(v) if d.kind == "float" else v
            return z3.fpFPToFP(RNE, v, F32 if d.kind == "float" else F64)
        if op in ("sitofp", "uitofp"):
            if isinstance(v, int):
                x = float(sgn(v, sbits) if op == "sitofp" else v)
                return f32round(x) if d.kind == "float" else x
            fs = F32 if d.kind == "float" else F64
            return z3.fpSignedToFP(RNE, bvv(v, sbits), fs) if op == "sitofp" else z3.fpUnsignedToFP(RNE, bvv(v, sbits), fs)
        if op in ("fptosi", "fptoui"):
            if not is_sym(v):
                if v != v or abs(v) == float("inf"):
                    return 0
                return int(v) & mask(dbits)
            return z3.fpToSBV(z3.RTZ(), v, z3.BitVecSort(dbits)) if op == "fptosi" else z3.fpToUBV(z3.RTZ(), v, z3.BitVecSort(dbits))
        raise Inconclusive("cast " + op)

    # ------------------------------------------------------------------ control
    def goto(self, fr, label):
        fr.prev = fr.block
        fr.block = fr.fn.bmap[label]
        fr.ip = 0
        # phis, in parallel
        newv = {}
        for ins in fr.block.instrs:
            if ins.op != "phi":
                break
            for (v, lb) in ins.attrs["incoming"]:
                if lb == fr.prev.name:
                    newv[ins.res] = self.val(fr, v)
                    break
            else:
                raise Inconclusive("phi without matching predecessor")
            fr.ip += 1
        fr.vals.update(newv)

    def ret(self, st, rv):
        fr = st.frames.pop()
        for b in fr.allocas:
            o = st.mem.get(b)
            if o is not None:
                o = self.wobj(st, o)
                o.alive = False
        if not st.frames:
            if st.threads is None or st.cur == 0:
                raise PathEnd("done")
            self.thread_exit(st)
            return
        caller = st.frames[-1]
        ins = fr.callins
        if ins is not None:
            if ins.res is not None:
                caller.vals[ins.res] = rv
            if ins.op == "invoke":
                self.goto(caller, ins.attrs["normal"])
            else:
                caller.ip += 1

    def finish_call(self, st, ins, rv):
        """the current call/invoke instruction completed without entering a frame"""
        fr = st.frames[-1]
        if ins.res is not None:
            fr.vals[ins.res] = rv
        if ins.op == "invoke":
            self.goto(fr, ins.attrs["normal"])
        else:
            fr.ip += 1

    # ------------------------------------------------------------------ exceptions
    def type_bases(self, tname, seen=None):
        if seen is None:
            seen = set()
        if tname in seen:
            return seen
        seen.add(tname)
        if tname in STD_BASES:
            for b in STD_BASES[tname]:
                self.type_bases(b, seen)
            return seen
        g = self.m.globals.get(tname)
        if g is not None and g.init is not None:
            def walk(v):
                if v.kind == "global" and v.v.startswith("_ZTI") and v.v != tname:
                    self.type_bases(v.v, seen)
                for o in (v.ops or []):
                    if isinstance(o, llir.Val):
                        walk(o)
            walk(g.init)
        return seen

    def typeid(self, tname):
        if tname not in self.typeids:
            self.typeids[tname] = len(self.typeids) + 1
        return self.typeids[tname]

    def clause_type(self, cv):
        v = cv
        while v.kind == "cexpr":
            v = v.ops[0]
        if v.kind == "null":
            return None
        if v.kind == "global":
            return v.v
        raise Inconclusive("landingpad clause %s" % v)

    def throw(self, st, obj, tname):
        self.assumptions.add("C++ exceptions executed: search by static type and its bases (single inheritance at offset 0)")
        if st.nothrow:
            self.fail_path(st, "VP:unexpected C++ exception in a no-throw region (%s)" % tname, "VP")
        st.exc = (obj, tname)
        self.unwind(st, first=True)

    def unwind(self, st, first):
        """transfer control to the nearest landing pad that handles st.exc (or has a cleanup)"""
        obj, tname = st.exc
        bases = self.type_bases(tname)
        while st.frames:
            fr = st.frames[-1]
            ins = fr.block.instrs[fr.ip] if first else fr.block.instrs[fr.ip]
            first = False
            if ins.op == "invoke":
                lp_block = fr.fn.bmap[ins.attrs["unwind"]]
                lp = None
                for i2 in lp_block.instrs:
                    if i2.op == "landingpad":
                        lp = i2
                        break
                    if i2.op != "phi":
                        break
                if lp is None:
                    raise Inconclusive("unwind destination without landingpad")
                sel = None
                for (kind, cv) in lp.attrs["clauses"]:
                    if kind != "catch":
                        raise Inconclusive("filter clause")
                    ct = self.clause_type(cv)
                    if ct is None:
                        sel = 0x7fff  # catch-all: selector value is never compared
                        break
                    if ct in bases:
                        sel = self.typeid(ct)
                        break
                if sel is None and lp.attrs["cleanup"]:
                    sel = 0
                if sel is not None:
                    self.goto(fr, ins.attrs["unwind"])
                    # landingpad result is bound when the instruction executes
                    st.extra["lpad"] = [obj, sel]
                    return
            # leave this frame
            for b in fr.allocas:
                o = st.mem.get(b)
                if o is not None:
                    o = self.wobj(st, o)
                    o.alive = False
            st.frames.pop()
        self.fail_path_noframe(st, "VP:uncaught C++ exception (%s)" % tname, "VP")

    def fail_path_noframe(self, st, label, kind):
        self.obligations += 1
        if self.replay is not None:
            st.events.append("VP_ASSERT_FAIL %s" % label)
        self.violation(st, label, kind)
        raise PathEnd("error:" + label)

    # ------------------------------------------------------------------ calls
    def callee_name(self, st, fr, cv):
        v = cv
        while v.kind == "cexpr" and v.v in ("bitcast", "addrspacecast"):
            v = v.ops[0]
        if v.kind == "global":
            n = v.v
            while n in self.m.aliases:
                t = self.m.aliases[n]
                while t.kind == "cexpr":
                    t = t.ops[0]
                n = t.v
            return n
        if v.kind == "asm":
            return None
        a = self.val(fr, v)
        if is_sym(a):
            a = self.concretize(st, a, "indirect call target")
        n = self.fbyaddr.get(a)
        if n is None:
            self.fail_path(st, "MEM:indirect call through an invalid function pointer (%#x)" % a, "MEM")
        return n

    def do_call(self, st, fr, ins):
        name = self.callee_name(st, fr, ins.attrs["callee"])
        if name is None:
            self.finish_call(st, ins, None)   # inline asm (compiler barrier)
            return
        if name.startswith("llvm."):
            if name.startswith("llvm.lifetime."):
                p = self.val(fr, ins.ops[1])
                if isinstance(p, int):
                    o = self.find_obj(st, p)
                    if o is not None and o.kind == "stack" and o.base == p:
                        o = self.wobj(st, o)
                        o.scoped = name.startswith("llvm.lifetime.end")
                        if not o.scoped:
                            o.data = [None] * o.size
                self.finish_call(st, ins, None)
                return
            if name.startswith(("llvm.dbg.", "llvm.assume", "llvm.invariant.", "llvm.experimental.noalias", "llvm.prefetch", "llvm.donothing", "llvm.var.annotation")):
                self.finish_call(st, ins, None)
                return
            args = [self.val(fr, a) for a in ins.ops]
            self.finish_call(st, ins, self.intrinsic(st, ins, name, args))
            return
        args = [self.val(fr, a) if a.kind != "meta" else None for a in ins.ops]
        mdl = self.models.get(name)
        if mdl is None:
            for (rx, fn) in self.model_res:
                if rx.match(name):
                    mdl = fn
                    break
        if mdl is not None:
            r = mdl(self, st, ins, name, args)
            if r is not NOFINISH:
                self.finish_call(st, ins, r)
            return
        g = self.m.funcs.get(name)
        if any(rx.search(name) for rx in self.opaque):
            self.finish_call(st, ins, self.opaque_call(st, g, ins, name, args))
            return
        if g is None or g.is_decl:
            raise Inconclusive("call to unmodelled external function %s" % name)
        if len(st.frames) > 400:
            raise Inconclusive("call depth > 400 in %s" % name)
        self.funcs_encoded.add(name)
        nf = Frame(g, ins)
        for (p, a) in zip(g.params, args):
            nf.vals[p[1]] = a
        if g.vararg:
            nf.vals["__va"] = args[len(g.params):]
        st.frames.append(nf)

    def opaque_call(self, st, g, ins, name, args):
        self.assumptions.add("opaque (result unconstrained, no memory effect): functions matching the unit's opaque list")
        # sret std::string: a valid empty string
        if g is not None and g.params and any("sret" in str(x) for x in g.params[0][2]):
            p = args[0]
            pt = g.params[0][0]
            if pt.kind == "ptr" and "basic_string" in pt.elem.key():
                self.store(st, p, self.padd(p, 16), llir.PtrT(llir.I8))
                self.store(st, self.padd(p, 8), 0, llir.I64)
                self.store(st, self.padd(p, 16), 0, llir.I8)
            return None
        t = self.m.resolve(ins.ty) if ins.ty.kind != "void" else None
        if t is None:
            return None
        if t.kind == "ptr" and args and g is not None and g.params and g.params[0][0] == ins.ty:
            return args[0]          # stream-style: returns its first argument
        return self.havoc(t, "opaque")

    def havoc(self, t, pre):
        if t.kind == "int":
            v = self.fresh(pre, t.bits)
            return simp(v == z3.BitVecVal(1, 1)) if t.bits == 1 else v
        if t.kind == "ptr":
            return 0
        if t.is_fp:
            self.nvars += 1
            return z3.FP("%s_%d" % (pre, self.nvars), F32 if t.kind == "float" else F64)
        if t.kind == "struct":
            return [self.havoc(self.m.resolve(f), pre) for f in t.fields]
        raise Inconclusive("havoc %s" % t)


NOFINISH = object()


def _step(self, st):
    if st.threads is not None:
        me = st.threads[st.cur]
        self.cur_tid = me["tid"]
        if me.get("post_sync"):
            me["post_sync"] = False
            self.sync_point(st)
    fr = st.frames[-1]
    ins = fr.block.instrs[fr.ip]
    op = ins.op
    A = ins.attrs
    V = lambda k: self.val(fr, ins.ops[k])
    res = None
    if op == "call" or op == "invoke":
        self.do_call(st, fr, ins)
        return
    if st.threads is not None and (op in ("atomicrmw", "cmpxchg", "fence") or (op in ("load", "store") and (A.get("atomic") or A.get("volatile")))):
        self.sync_point(st, is_load=(("atomic" if A.get("atomic") else True) if op == "load" else False))
    if op in ("add", "sub", "mul", "udiv", "sdiv", "urem", "srem", "shl", "lshr", "ashr", "and", "or", "xor"):
        a, b = V(0), V(1)
        t = self.m.resolve(ins.ty)
        if t.kind == "vector":
            res = [self.ibin(st, op, x, y, t.elem.bits) for x, y in zip(a, b)]
        else:
            res = self.ibin(st, op, a, b, t.bits)
    elif op == "icmp":
        a, b = V(0), V(1)
        t = self.m.resolve(ins.ops[0].ty)
        if t.kind == "vector":
            eb = 64 if t.elem.kind == "ptr" else t.elem.bits
            res = [self.icmp(A["pred"], x, y, eb) for x, y in zip(a, b)]
        else:
            res = self.icmp(A["pred"], a, b, 64 if t.kind == "ptr" else t.bits)
    elif op == "getelementptr":
        res = self.gep_off(V(0), A["srcty"], [self.val(fr, o) for o in ins.ops[1:]], ins.ops[1:])
    elif op == "load":
        res = self.load(st, V(0), ins.ty)
    elif op == "store":
        self.store(st, V(1), V(0), ins.ops[0].ty)
    elif op == "br":
        tg = A["targets"]
        if len(tg) == 1:
            self.goto(fr, tg[0])
        else:
            self.goto(fr, tg[0] if self.decide(st, V(0)) else tg[1])
        return
    elif op == "select":
        c = V(0)
        a, b = V(1), V(2)
        if isinstance(c, list):
            t = self.m.resolve(ins.ty)
            res = [x if (isinstance(ci, int) and ci) else y if isinstance(ci, int) else self.select(as_bool(ci), x, y, t.elem) for ci, x, y in zip(c, a, b)]
        elif isinstance(c, int):
            res = a if c & 1 else b
        else:
            cb = z3.simplify(as_bool(c))
            if z3.is_true(cb):
                res = a
            elif z3.is_false(cb):
                res = b
            elif (isinstance(a, int) and isinstance(b, int) and a == b):
                res = a
            else:
                res = self.select(cb, a, b, ins.ty)
    elif op in ("trunc", "zext", "sext", "fptrunc", "fpext", "fptoui", "fptosi", "uitofp", "sitofp", "bitcast", "ptrtoint", "inttoptr", "addrspacecast"):
        res = self.cast(st, op, V(0), ins.ops[0].ty, ins.ty)
    elif op == "alloca":
        n = 1
        if ins.ops:
            n = V(0)
            if is_sym(n):
                n = self.concretize(st, n, "alloca count")
        size = self.m.sizeof(A["elty"]) * n
        res = self.alloc(st, size, "stack", "stack variable %%%s of %s" % (ins.res, fr.fn.name), align=max(A.get("align") or 16, 16))
        fr.allocas.append(res)
    elif op == "phi":
        raise Inconclusive("phi in the middle of a block")
    elif op == "ret":
        self.ret(st, V(0) if ins.ops else None)
        return
    elif op == "switch":
        v = V(0)
        bits = ins.ops[0].ty.bits
        if isinstance(v, int):
            for (c, lb) in A["cases"]:
                if (c & mask(bits)) == v:
                    self.goto(fr, lb)
                    return
            self.goto(fr, A["default"])
            return
        for (c, lb) in A["cases"]:
            if self.decide(st, v == z3.BitVecVal(c & mask(bits), bits)):
                self.goto(fr, lb)
                return
        self.goto(fr, A["default"])
        return
    elif op == "unreachable":
        self.fail_path(st, "UB:unreachable executed in %s" % fr.fn.name, "UB")
    elif op in ("fadd", "fsub", "fmul", "fdiv", "frem"):
        a, b = V(0), V(1)
        t = self.m.resolve(ins.ty)
        if t.kind == "vector":
            res = [self.fbin(op, x, y, t.elem) for x, y in zip(a, b)]
        else:
            res = self.fbin(op, a, b, t)
    elif op == "fneg":
        a = V(0)
        t = self.m.resolve(ins.ty)
        neg = lambda x: (-x if not is_sym(x) else z3.fpNeg(x))
        res = [neg(x) for x in a] if t.kind == "vector" else neg(a)
    elif op == "fcmp":
        a, b = V(0), V(1)
        t = self.m.resolve(ins.ops[0].ty)
        if t.kind == "vector":
            res = [self.fcmp(A["pred"], x, y, t.elem) for x, y in zip(a, b)]
        else:
            res = self.fcmp(A["pred"], a, b, t)
    elif op == "extractvalue":
        v = V(0)
        for i in A["idx"]:
            v = v[i]
        res = v
    elif op == "insertvalue":
        def setp(agg, idx, val):
            agg = list(agg)
            if len(idx) == 1:
                agg[idx[0]] = val
            else:
                agg[idx[0]] = setp(agg[idx[0]], idx[1:], val)
            return agg
        res = setp(V(0), A["idx"], V(1))
    elif op == "extractelement":
        i = V(1)
        if is_sym(i):
            i = self.concretize(st, i, "vector index")
        res = V(0)[i]
    elif op == "insertelement":
        vec = list(V(0))
        i = V(2)
        if is_sym(i):
            i = self.concretize(st, i, "vector index")
        vec[i] = V(1)
        res = vec
    elif op == "shufflevector":
        both = list(V(0)) + list(V(1))
        res = [both[m] if m >= 0 else 0 for m in A["mask"]]
    elif op == "freeze":
        res = V(0)
    elif op == "landingpad":
        res = st.extra.pop("lpad", None)
        if res is None:
            raise Inconclusive("landingpad reached without an exception")
    elif op == "resume":
        v = V(0)
        if st.exc is None:
            raise Inconclusive("resume without exception")
        # leave this frame, continue the search in the callers
        for b in fr.allocas:
            o = st.mem.get(b)
            if o is not None:
                o = self.wobj(st, o)
                o.alive = False
        st.frames.pop()
        self.unwind(st, first=False)
        return
    elif op == "atomicrmw":
        p, v = V(0), V(1)
        t = ins.ty
        old = self.load(st, p, t)
        rmw = A["rmw"]
        bits = self.m.resolve(t).bits
        if rmw == "xchg":
            new = v
        elif rmw in ("add", "sub", "and", "or", "xor"):
            new = self.ibin(st, rmw, old, v, bits)
        elif rmw in ("max", "min", "umax", "umin"):
            pred = {"max": "sgt", "min": "slt", "umax": "ugt", "umin": "ult"}[rmw]
            c = self.icmp(pred, old, v, bits)
            new = (old if c else v) if isinstance(c, int) else self.select(as_bool(c), old, v, t)
        else:
            raise Inconclusive("atomicrmw " + rmw)
        self.store(st, p, new, t)
        res = old
    elif op == "cmpxchg":
        p, c, n = V(0), V(1), V(2)
        t = ins.ops[1].ty
        rt = self.m.resolve(t)
        bits = 64 if rt.kind == "ptr" else rt.bits
        old = self.load(st, p, t)
        eq = self.icmp("eq", old, c, bits)
        ok = self.decide(st, eq)
        if ok:
            self.store(st, p, n, t)
        res = [old, int(ok)]
    elif op == "fence":
        pass
    elif op == "va_arg":
        raise Inconclusive("va_arg")
    else:
        raise Inconclusive("unsupported instruction %s" % op)
    if ins.res is not None:
        fr.vals[ins.res] = res
    fr.ip += 1


def _intrinsic(self, st, ins, name, args):
    base = name.split(".")
    n1 = base[1]
    t = self.m.resolve(ins.ty) if ins.ty.kind != "void" else None
    if n1 in ("memcpy", "memmove"):
        d, s, n = args[0], args[1], args[2]
        if is_sym(n):
            n = self.concretize(st, n, name + " length")
        if n:
            bs = self.load_bytes(st, s, n)
            self.store_bytes(st, d, list(bs))
        return None
    if n1 == "memset":
        d, c, n = args[0], args[1], args[2]
        if is_sym(n):
            n = self.concretize(st, n, "memset length")
        if n:
            self.store_bytes(st, d, [c if isinstance(c, int) else c] * n)
        return None
    if n1 in ("umax", "umin", "smax", "smin"):
        a, b = args
        bits = t.bits
        pred = {"umax": "ugt", "umin": "ult", "smax": "sgt", "smin": "slt"}[n1]
        c = self.icmp(pred, a, b, bits)
        if isinstance(c, int):
            return a if c else b
        return self.select(as_bool(c), a, b, ins.ty)
    if n1 == "abs":
        a = args[0]
        bits = t.bits
        if isinstance(a, int):
            return (-sgn(a, bits)) & mask(bits) if sgn(a, bits) < 0 else a
        return simp(z3.If(a < 0, -a, a))
    if n1 in ("uadd", "usub", "umul", "sadd", "ssub", "smul") and base[2] == "with":
        a, b = args
        bits = t.fields[0].bits
        opn = n1[1:]
        if isinstance(a, int) and isinstance(b, int):
            if n1[0] == "u":
                full = {"add": a + b, "sub": a - b, "mul": a * b}[opn]
                return [full & mask(bits), int(full < 0 or full > mask(bits))]
            sa, sb = sgn(a, bits), sgn(b, bits)
            full = {"add": sa + sb, "sub": sa - sb, "mul": sa * sb}[opn]
            return [full & mask(bits), int(full < -(1 << (bits - 1)) or full >= (1 << (bits - 1)))]
        A, B = bvv(a, bits), bvv(b, bits)
        ext = (lambda x: z3.ZeroExt(bits, x)) if n1[0] == "u" else (lambda x: z3.SignExt(bits, x))
        full = {"add": lambda: ext(A) + ext(B), "sub": lambda: ext(A) - ext(B), "mul": lambda: ext(A) * ext(B)}[opn]()
        r = z3.Extract(bits - 1, 0, full)
        ov = full != ext(r)
        return [simp(r), simp(ov)]
    if n1 in ("uadd", "usub") and base[2] == "sat":
        a, b = args
        bits = t.bits
        if isinstance(a, int) and isinstance(b, int):
            return min(a + b, mask(bits)) if n1 == "uadd" else max(a - b, 0)
        A, B = bvv(a, bits), bvv(b, bits)
        return simp(z3.If(z3.ULT(A + B, A), z3.BitVecVal(mask(bits), bits), A + B)) if n1 == "uadd" else simp(z3.If(z3.ULT(A, B), z3.BitVecVal(0, bits), A - B))
    if n1 in ("ctlz", "cttz", "ctpop", "bswap", "bitreverse", "fshl", "fshr"):
        a = args[0]
        bits = t.bits
        if not isinstance(a, int):
            a = self.concretize(st, a, name)
        if n1 == "ctlz":
            return bits - a.bit_length()
        if n1 == "cttz":
            return bits if a == 0 else (a & -a).bit_length() - 1
        if n1 == "ctpop":
            return bin(a).count("1")
        if n1 == "bswap":
            return int.from_bytes(a.to_bytes(bits // 8, "little"), "big")
        if n1 in ("fshl", "fshr"):
            b, c = args[1], args[2]
            if not isinstance(b, int) or not isinstance(c, int):
                raise Inconclusive("symbolic funnel shift")
            c %= bits
            cat = (a << bits) | b
            return ((cat << c) >> bits) & mask(bits) if n1 == "fshl" else (cat >> c) & mask(bits)
        raise Inconclusive(name)
    if n1 == "expect" or n1 == "launder" or n1 == "strip" or n1 == "ssa_copy" or n1 == "ptrmask":
        return args[0]
    if n1 == "is" and base[2] == "constant":
        return 0
    if n1 == "objectsize":
        return mask(t.bits) if not (isinstance(args[1], int) and args[1]) else 0
    if n1 == "eh" and base[2] == "typeid":
        v = ins.ops[0]
        while v.kind == "cexpr":
            v = v.ops[0]
        return self.typeid(v.v)
    if n1 in ("stacksave",):
        return 0
    if n1 == "x86" and base[2] == "rdtsc":
        st.extra["tsc"] = st.extra.get("tsc", 0) + 100000
        self.assumptions.add("rdtsc: a counter advancing by 100000 per read (spin back-off loops terminate)")
        return st.extra["tsc"]
    if n1 == "x86" and base[2] in ("sse2", "mmx") and base[-1] in ("pause", "lfence", "mfence", "sfence"):
        self.sync_point(st, voluntary=(base[-1] == "pause"))
        return None
    if n1 == "readcyclecounter":
        st.extra["tsc"] = st.extra.get("tsc", 0) + 100000
        return st.extra["tsc"]
    if n1 in ("stackrestore", "trap", "debugtrap", "va_start", "va_end", "va_copy"):
        if n1 == "trap":
            self.fail_path(st, "TRAP:llvm.trap executed", "TRAP")
        if n1.startswith("va_"):
            raise Inconclusive("varargs callee")
        return None
    if n1 in ("fabs", "sqrt", "floor", "ceil", "trunc", "rint", "nearbyint", "round", "copysign", "minnum", "maxnum", "fmuladd", "fma"):
        import math
        a = args[0]
        if all(not is_sym(x) for x in args):
            f = {"fabs": lambda: abs(a), "sqrt": lambda: math.sqrt(a) if a >= 0 else float("nan"), "floor": lambda: float(math.floor(a)) if abs(a) != float("inf") and a == a else a,
                 "ceil": lambda: float(math.ceil(a)) if abs(a) != float("inf") and a == a else a, "trunc": lambda: float(int(a)) if abs(a) != float("inf") and a == a else a,
                 "copysign": lambda: math.copysign(a, args[1]), "minnum": lambda: min(a, args[1]), "maxnum": lambda: max(a, args[1]),
                 "fmuladd": lambda: a * args[1] + args[2], "round": lambda: float(round(a)), "rint": lambda: float(round(a)), "nearbyint": lambda: float(round(a))}.get(n1)
            if f is None:
                raise Inconclusive(name)
            r = f()
            return f32round(r) if t.kind == "float" else r
        A = [self.fpv(x, t) for x in args]
        if n1 == "fabs":
            return z3.fpAbs(A[0])
        if n1 == "sqrt":
            return z3.fpSqrt(RNE, A[0])
        if n1 == "fmuladd":
            return z3.fpAdd(RNE, z3.fpMul(RNE, A[0], A[1]), A[2])
        if n1 == "minnum":
            return z3.fpMin(A[0], A[1])
        if n1 == "maxnum":
            return z3.fpMax(A[0], A[1])
        raise Inconclusive("symbolic " + name)
    raise Inconclusive("intrinsic " + name)


Engine.step = _step
Engine.intrinsic = _intrinsic


# ---------------------------------------------------------------------------- threads (cooperative, optional schedule exploration)
def _threads(self, st):
    if st.threads is None:
        st.threads = [dict(tid=1, frames=st.frames, status="run", wait=None, phase=0, skip=False)]
        st.cur = 0
    return st.threads


def _spawn(self, st, fn, args, what):
    ts = self.threads(st)
    fr = Frame(fn, None)
    for (p, a) in zip(fn.params, args):
        fr.vals[p[1]] = a
    self.funcs_encoded.add(fn.name)
    tid = len(ts) + 1
    ts.append(dict(tid=tid, frames=[fr], status="run", wait=None, phase=0, skip=False, what=what))
    self.assumptions.add("threads: sequentially consistent interleaving of whole instructions; context switches at blocking calls and yields go round-robin (fair, not explored); explored preemptions (bounded as stated "
                         "per entry) are placed before synchronisation calls, fences, atomic/volatile stores and read-modify-writes (not before plain atomic/volatile loads), each program location at most 4 times per path; time-sliced for liveness")
    return tid


def _switch_to(self, st, j):
    ts = st.threads
    ts[st.cur]["frames"] = st.frames
    st.cur = j
    st.frames = ts[j]["frames"]
    st.slice = 0
    st.sched_trace.append(ts[j]["tid"])
    if os.environ.get("VP_PATH_DEBUG") == "2":
        sys.stderr.write("switch -> thread %d at step %d in %s ; statuses %s\n" % (ts[j]["tid"], self.total_steps, st.frames[-1].fn.name[:60] if st.frames else "-", [(t["tid"], t["status"], t["wait"]) for t in ts]))


def _runnable(self, st):
    return [i for i, t in enumerate(st.threads) if t["status"] == "run"]


def _thread_exit(self, st):
    ts = st.threads
    me = ts[st.cur]
    me["status"] = "done"
    for t in ts:
        if t["status"] == "blocked" and t["wait"] == ("join", me["tid"]):
            t["status"] = "run"
            t["wait"] = None
    self.pick_next(st, "thread exit")


def _pick_next(self, st, why):
    """the running thread cannot continue (blocked / finished / yielded): choose who runs next"""
    run = self.runnable(st)
    if not run:
        self.fail_path_noframe(st, "SCHED:deadlock - every thread is blocked (%s)" % ", ".join(
            "thread %d %s" % (t["tid"], t["wait"]) for t in st.threads if t["status"] == "blocked"), "SCHED")
    others = [i for i in run if i != st.cur]
    if not others:
        return
    # round-robin order starting after the current thread
    order = sorted(others, key=lambda i: (i - st.cur) % len(st.threads))
    # round-robin (fair): which thread follows a blocked / finished / yielding one is not explored - an unfair choice
    # repeated at every yield would starve a thread and refute every bounded-wait ("eventually") obligation
    self.switch_to(st, order[0])


def _block(self, st, wait):
    """the running thread blocks on `wait`; its current call is re-executed when it is woken"""
    me = st.threads[st.cur]
    me["status"] = "blocked"
    me["wait"] = wait
    self.pick_next(st, "blocked")


def _wake(self, st, pred, one=False):
    n = 0
    for t in st.threads or []:
        if t["status"] == "blocked" and pred(t["wait"]):
            t["status"] = "run"
            t["wait"] = None
            n += 1
            if one:
                break
    return n


def _sync_point(self, st, voluntary=False, is_load=False):
    """a point where another thread may be scheduled; returns normally if the current thread keeps running"""
    if st.threads is None:
        return
    me = st.threads[st.cur]
    if me["skip"]:
        me["skip"] = False
        return
    others = [i for i in self.runnable(st) if i != st.cur]
    if not others:
        return
    st.slice += 1
    order = sorted(others, key=lambda i: (i - st.cur) % len(st.threads))
    if voluntary or st.slice > self.time_slice:
        me["skip"] = True
        self.switch_to(st, order[0])
        raise Resched()
    if self.explore and st.preempt_left > 0 and (not is_load or (is_load == "atomic" and self.explore_loads)):
        # each program location serves as a preemption point at most PP_MAX times per path (idle loops would otherwise dominate)
        fr0 = st.frames[-1]
        key = (fr0.fn.name, fr0.block.name, fr0.ip)
        ppc = st.extra.setdefault("ppc", {})
        c = ppc.get(key, 0)
        if c >= self.pp_max:
            return
        ppc[key] = c + 1
        me["skip"] = True
        alts = [(z3.BoolVal(True), None, st.model, ("stay",))] + [(z3.BoolVal(True), None, st.model, ("preempt", j)) for j in order]
        raise Fork(alts)


class Resched(Exception):
    """control moved to another thread: the interrupted instruction is executed when its thread runs again"""


Engine.threads = _threads
Engine.spawn = _spawn
Engine.switch_to = _switch_to
Engine.runnable = _runnable
Engine.thread_exit = _thread_exit
Engine.pick_next = _pick_next
Engine.block = _block
Engine.wake = _wake
Engine.sync_point = _sync_point


def _run_entry(self, name):
    f = self.m.funcs.get(name)
    if f is None or f.is_decl:
        raise Inconclusive("no entry %s" % name)
    st0 = State()
    self.cur_tid = 1
    st0.frames.append(Frame(f))
    self.funcs_encoded.add(name)
    work = [st0]
    while work:
        st = work.pop()
        try:
            while True:
                st.steps += 1
                self.total_steps += 1
                if self.total_steps > self.max_steps:
                    raise Inconclusive("step limit %d" % self.max_steps)
                if (self.total_steps & 1023) == 0 and time.time() - self.t0 > self.wall:
                    raise Inconclusive("wall-clock limit %ds" % self.wall)
                try:
                    self.step(st)
                except Resched:
                    continue
                except Fork as fk:
                    if os.environ.get("VP_PATH_DEBUG") == "3":
                        fr0 = st.frames[-1]
                        k = "%s | %s" % (fr0.fn.name[:50], str(fr0.block.instrs[fr0.ip])[:60])
                        self.path_ends["fork@" + k] = self.path_ends.get("fork@" + k, 0) + 1
                    if self.paths + len(work) + len(fk.alts) > self.max_paths:
                        raise Inconclusive("path limit %d" % self.max_paths)
                    succ = []
                    for i, alt in enumerate(fk.alts):
                        c, fact, model = alt[0], alt[1], alt[2]
                        s2 = st.clone() if i < len(fk.alts) - 1 else st
                        s2.pc.append(c)
                        s2.model = model
                        if len(alt) > 3:
                            post = alt[3]
                            if isinstance(post, tuple) and post[0] in ("switch", "preempt"):
                                if post[0] == "preempt":
                                    s2.preempt_left -= 1
                                self.switch_to(s2, post[1])
                            elif isinstance(post, tuple) and post[0] == "stay":
                                pass
                            else:
                                # the forking call completes with this value in the successor (no re-execution)
                                fr2 = s2.frames[-1]
                                self.finish_call(s2, fr2.block.instrs[fr2.ip], post)
                        if fact is not None:
                            if fact[0] == "known":
                                s2.known[fact[1]] = (fact[2], fact[3])
                            else:
                                s2.facts[fact[0]] = (fact[1], fact[2])
                        succ.append(s2)
                    work.extend(succ[:-1])
                    st = succ[-1]
        except Inconclusive as e:
            if st.frames and not getattr(e, "located", False):
                fr = st.frames[-1]
                ins = fr.block.instrs[fr.ip] if fr.ip < len(fr.block.instrs) else None
                e2 = Inconclusive("%s [in %s: %s]" % (e, fr.fn.name, str(ins)[:160]))
                e2.located = True
                raise e2
            raise
        except PathEnd as pe:
            self.paths += 1
            if os.environ.get("VP_PATH_DEBUG") == "4" and st.steps > 100000:
                sys.stderr.write("long path: %d steps, %d switches, trace head %s tail %s\n" % (st.steps, len(st.sched_trace), st.sched_trace[:30], st.sched_trace[-10:]))
            k = pe.why if not pe.why.startswith("error:") else "error"
            self.path_ends[k] = self.path_ends.get(k, 0) + 1
            if self.replay is not None:
                self.final_events = st.events + (["VP_DONE"] if pe.why == "done" else [])
    return self


Engine.run_entry = _run_entry


def load_module(ll, support=()):
    """main module plus support modules (definitions of functions the main module only declares)"""
    mod = llir.parse_file(ll)
    for sp in support:
        m2 = llir.parse_file(sp)
        for n, t in m2.types.items():
            if mod.types.get(n) is None:
                mod.types[n] = t
        for n, g in m2.globals.items():
            if n in mod.globals and mod.globals[n].init is not None:
                raise Inconclusive("support module global @%s collides" % n)
            mod.globals[n] = g
        for n, f in m2.funcs.items():
            if f.is_decl:
                mod.funcs.setdefault(n, f)
            elif n not in mod.funcs or mod.funcs[n].is_decl:
                mod.funcs[n] = f
    return mod


def run(ll, entry, opaque=(), wall=900, max_steps=3000000, max_paths=20000, replay=None, support=(), tolerate=()):
    mod = load_module(ll, support)
    eng = Engine(mod, opaque=opaque, tolerate=tolerate, wall=wall, max_steps=max_steps, max_paths=max_paths, replay=replay)
    status = "held"
    note = ""
    try:
        eng.run_entry(entry)
    except Inconclusive as e:
        status = "inconclusive"
        note = str(e)
    if eng.violations:
        status = "violated"
    return eng, status, note


def main():
    import argparse
    ap = argparse.ArgumentParser()
    ap.add_argument("ll")
    ap.add_argument("entry")
    ap.add_argument("--opaque", default="", help="file with one regex per line")
    ap.add_argument("--wall", type=int, default=900)
    ap.add_argument("--max-steps", type=int, default=3000000)
    ap.add_argument("--max-paths", type=int, default=20000)
    ap.add_argument("--replay", default=None, help="file of concrete inputs: run concretely and print the event trace")
    ap.add_argument("--json", default=None)
    ap.add_argument("--support", default="", help="comma-separated extra .ll modules")
    ap.add_argument("--tolerate", default="", help="file with one regex per line: use-after-free labels that are recorded but do not end the path")
    a = ap.parse_args()
    opaque = [l.strip() for l in open(a.opaque) if l.strip()] if a.opaque else []
    t0 = time.time()
    sup = [x for x in a.support.split(",") if x]
    tol = [l.strip() for l in open(a.tolerate) if l.strip()] if a.tolerate else []
    if a.replay:
        # concrete differential mode: one run per replay file (comma separated), module parsed once
        mod = load_module(a.ll, sup)
        for rf in a.replay.split(","):
            replay = [int(x) for x in open(rf).read().split()]
            eng = Engine(mod, opaque=opaque, tolerate=tol, wall=a.wall, max_steps=a.max_steps, max_paths=a.max_paths, replay=replay)
            print("== %s" % rf)
            try:
                eng.run_entry(a.entry)
                for e in getattr(eng, "final_events", []):
                    print(e)
            except Inconclusive as e:
                print("INCONCLUSIVE", e)
        return 0
    eng, status, note = run(a.ll, a.entry, opaque, a.wall, a.max_steps, a.max_paths, None, sup, tol)
    out = dict(entry=a.entry, status=status, note=note, paths=eng.paths, path_ends=eng.path_ends, steps=eng.total_steps, queries=eng.queries,
               obligations=eng.obligations, solver_time=round(eng.solver_time, 3), wall=round(time.time() - t0, 3), violations=eng.violations,
               reach=sorted(eng.reach), functions=sorted(eng.funcs_encoded), assumptions=sorted(eng.assumptions))
    if a.json:
        json.dump(out, open(a.json, "w"), indent=1)
    else:
        o2 = dict(out)
        o2["functions"] = len(out["functions"])
        print(json.dumps(o2, indent=1))
    return 0 if status == "held" else 1 if status == "violated" else 2


# =========================================================================== models of external functions
MODELS = {}
MODEL_RES = []


def model(*names):
    def deco(fn):
        for n in names:
            MODELS[n] = fn
        return fn
    return deco


def model_re(rx):
    def deco(fn):
        MODEL_RES.append((re.compile(rx), fn))
        return fn
    return deco


def _conc(eng, st, v, what):
    return eng.concretize(st, v, what) if is_sym(v) else v


# ---- harness protocol
@model("vp_nondet_u8", "vp_nondet_u16", "vp_nondet_u32", "vp_nondet_u64", "vp_nondet_f32", "vp_nondet_f64")
def m_nondet(eng, st, ins, name, args):
    kind = name[len("vp_nondet_"):]
    bits = int(kind[1:])
    if eng.replay is not None:
        v = eng.replay[eng.replay_pos] if eng.replay_pos < len(eng.replay) else 0
        eng.replay_pos += 1
        v &= mask(bits)
        st.inputs.append((kind, v, bits))
        if kind[0] == "f":
            return struct.unpack("<f" if bits == 32 else "<d", v.to_bytes(bits // 8, "little"))[0]
        return v
    if kind[0] == "f":
        eng.nvars += 1
        v = z3.FP("in_%s_%d" % (kind, eng.nvars), F32 if bits == 32 else F64)
    else:
        v = eng.fresh("in_" + kind, bits)
    st.inputs.append((kind, v, bits))
    return v


@model("vp_pick")
def m_pick(eng, st, ins, name, args):
    """vp_pick(n): a value in [0,n), one path per value (no solver query: every value is feasible by construction)"""
    n = _conc(eng, st, args[0], "vp_pick bound")
    if eng.replay is not None:
        v = eng.replay[eng.replay_pos] if eng.replay_pos < len(eng.replay) else 0
        eng.replay_pos += 1
        v &= mask(32)
        st.inputs.append(("u32", v, 32))
        if v >= n:
            st.events.append("VP_ASSUME_FAIL")
            raise PathEnd("assume")
        return v
    if n <= 0:
        raise PathEnd("assume")
    var = eng.fresh("in_pick", 32)
    st.inputs.append(("u32", var, 32))
    if n == 1:
        st.pc.append(var == z3.BitVecVal(0, 32))
        return 0
    raise Fork([(var == z3.BitVecVal(i, 32), None, None, i) for i in range(n)])


@model("vp_fix")
def m_fix(eng, st, ins, name, args):
    """vp_fix(x): x made concrete - one path per value of x that the solver finds feasible under the path condition"""
    return eng.concretize(st, args[0], "vp_fix", limit=4096)


@model("vp_assume")
def m_assume(eng, st, ins, name, args):
    c = args[0]
    if isinstance(c, int):
        if not (c & 1):
            if eng.replay is not None:
                st.events.append("VP_ASSUME_FAIL")
            raise PathEnd("assume")
        return None
    c = z3.simplify(as_bool(c))
    if z3.is_true(c):
        return None
    ok, m = eng.feasible(st, c)
    if not ok:
        raise PathEnd("assume")
    st.pc.append(c)
    st.model = m
    return None


@model("vp_assert")
def m_assert(eng, st, ins, name, args):
    c = args[0]
    label = "VP:" + eng.cstring(st, args[1])
    eng.obligations += 1
    if isinstance(c, int):
        if eng.replay is not None or st.threads is not None:
            st.events.append("A %s %d" % (label[3:], c & 1))
        if not (c & 1):
            if eng.replay is not None:
                st.events.append("VP_ASSERT_FAIL %s" % label[3:])
            eng.violation(st, label, "VP")
            raise PathEnd("error:" + label)
        return None
    c = z3.simplify(as_bool(c))
    if z3.is_true(c):
        return None
    r, m = eng.check(st, [z3.Not(c)])
    if r == z3.sat:
        eng.violation(st, label, "VP", m)
        ok, m2 = eng.feasible(st, c)
        if not ok:
            raise PathEnd("error:" + label)
        st.pc.append(c)
        st.model = m2
    return None


@model("vp_reach")
def m_reach(eng, st, ins, name, args):
    l = eng.cstring(st, args[0])
    eng.reach[l] = eng.reach.get(l, 0) + 1
    if eng.replay is not None:
        st.events.append("R %s" % l)
    return None


@model("vp_nothrow")
def m_nothrow(eng, st, ins, name, args):
    st.nothrow = bool(args[0] & 1) if isinstance(args[0], int) else True
    return None


@model("vp_feq", "vp_deq")
def m_feq(eng, st, ins, name, args):
    a, b = args
    if not is_sym(a) and not is_sym(b):
        return int(a == b or (a != a and b != b))
    t = llir.FLOAT if name == "vp_feq" else llir.DOUBLE
    A, B = eng.fpv(a, t), eng.fpv(b, t)
    return simp(z3.Or(z3.fpEQ(A, B), z3.And(z3.fpIsNaN(A), z3.fpIsNaN(B))))


@model("vp_shared", "vp_thread", "vp_point", "vp_atomic_begin", "vp_atomic_end")
def m_noop(eng, st, ins, name, args):
    return None


# ---- allocation
def _malloc(eng, st, n, what, align=16):
    n = _conc(eng, st, n, what + " size")
    if n > (1 << 24):
        # huge request: the allocator may fail; model as failure (null / bad_alloc decided by the caller)
        return 0
    return eng.alloc(st, n, "heap", "%s block of %d bytes" % (what, n), align=align)


@model("malloc")
def m_malloc(eng, st, ins, name, args):
    return _malloc(eng, st, args[0], "malloc")


@model("calloc")
def m_calloc(eng, st, ins, name, args):
    n = _conc(eng, st, args[0], "calloc") * _conc(eng, st, args[1], "calloc")
    p = _malloc(eng, st, n, "calloc")
    if p and n:
        eng.store_bytes(st, p, [0] * n)
    return p


@model("_Znwm", "_Znam")
def m_new(eng, st, ins, name, args):
    p = _malloc(eng, st, args[0], "operator new")
    if p == 0:
        return _throw_std(eng, st, "_ZTISt9bad_alloc")
    return p


@model("_ZnwmRKSt9nothrow_t", "_ZnamRKSt9nothrow_t")
def m_new_nothrow(eng, st, ins, name, args):
    return _malloc(eng, st, args[0], "operator new")


@model("_ZnwmSt11align_val_t", "_ZnamSt11align_val_t")
def m_new_al(eng, st, ins, name, args):
    p = _malloc(eng, st, args[0], "operator new", align=max(16, _conc(eng, st, args[1], "alignment")))
    if p == 0:
        return _throw_std(eng, st, "_ZTISt9bad_alloc")
    return p


def _free(eng, st, p, what):
    p = _conc(eng, st, p, what)
    if p == 0:
        return None
    o = st.mem.get(p)
    if o is None or o.kind != "heap":
        eng.fail_path(st, "MEM:%s of a pointer that is not the start of a heap block" % what, "MEM")
    if not o.alive:
        eng.fail_path(st, "MEM:%s of %s twice" % (what, o.name), "MEM")
    o = eng.wobj(st, o)
    o.alive = False
    return None


# ---- tbbmalloc by documented contract (C14, TBB configuration)
@model("scalable_aligned_malloc")
def m_scalable_aligned_malloc(eng, st, ins, name, args):
    n = _conc(eng, st, args[0], "scalable_aligned_malloc size")
    al = _conc(eng, st, args[1], "scalable_aligned_malloc alignment")
    if n == 0 or al == 0 or (al & (al - 1)):
        return 0
    if n > (1 << 24):
        return 0
    # aligned to exactly the requested alignment (base = al mod 2*al), never more by luck
    a2 = max(al, 16)
    base = (st.next_addr + 2 * a2 - 1) // (2 * a2) * (2 * a2) + a2
    st.next_addr = base
    return eng.alloc(st, n, "heap", "scalable_aligned_malloc block of %d bytes" % n, align=a2)


@model("scalable_malloc")
def m_scalable_malloc(eng, st, ins, name, args):
    n = _conc(eng, st, args[0], "scalable_malloc size")
    if n > (1 << 24):
        return 0
    # no alignment promise beyond malloc's natural 16 bytes: adversarially 16 mod 32
    base = (st.next_addr + 31) // 32 * 32 + 16
    st.next_addr = base
    return eng.alloc(st, max(n, 1), "heap", "scalable_malloc block of %d bytes" % n, align=16)


@model("scalable_aligned_free", "scalable_free")
def m_scalable_free(eng, st, ins, name, args):
    return _free(eng, st, args[0], name)


@model("free")
def m_free(eng, st, ins, name, args):
    return _free(eng, st, args[0], "free")


@model("_ZdlPv", "_ZdaPv", "_ZdlPvm", "_ZdaPvm", "_ZdlPvRKSt9nothrow_t", "_ZdaPvRKSt9nothrow_t", "_ZdlPvSt11align_val_t", "_ZdaPvSt11align_val_t", "_ZdlPvmSt11align_val_t")
def m_delete(eng, st, ins, name, args):
    return _free(eng, st, args[0], "operator delete")


@model("realloc")
def m_realloc(eng, st, ins, name, args):
    p = _conc(eng, st, args[0], "realloc")
    n = _conc(eng, st, args[1], "realloc size")
    q = _malloc(eng, st, n, "realloc")
    if p and q:
        o = st.mem.get(p)
        k = min(n, o.size)
        if k:
            eng.store_bytes(st, q, list(eng.load_bytes(st, p, k)))
        _free(eng, st, p, "realloc")
    return q


@model("posix_memalign")
def m_posix_memalign(eng, st, ins, name, args):
    al = _conc(eng, st, args[1], "alignment")
    p = _malloc(eng, st, args[2], "posix_memalign", align=max(al, 16))
    if p == 0:
        return 12
    eng.store(st, args[0], p, llir.I64)
    return 0


# ---- libc memory / strings
@model("memcpy", "memmove")
def m_memcpy(eng, st, ins, name, args):
    n = _conc(eng, st, args[2], name + " length")
    if n:
        bs = eng.load_bytes(st, args[1], n)
        eng.store_bytes(st, args[0], list(bs))
    return args[0]


@model("memset")
def m_memset(eng, st, ins, name, args):
    n = _conc(eng, st, args[2], "memset length")
    c = args[1]
    c = (c & 255) if isinstance(c, int) else simp(z3.Extract(7, 0, c))
    if n:
        eng.store_bytes(st, args[0], [c] * n)
    return args[0]


def _byte_eq(a, b):
    if isinstance(a, int) and isinstance(b, int):
        return int(a == b)
    return bvv(a, 8) == bvv(b, 8)


@model("strlen")
def m_strlen(eng, st, ins, name, args):
    p = _conc(eng, st, args[0], "strlen")
    i = 0
    while True:
        b = eng.load_bytes(st, p + i, 1)[0]
        if eng.decide(st, _byte_eq(b, 0)):
            return i
        i += 1
        if i > 100000:
            raise Inconclusive("strlen runaway")


@model("memchr")
def m_memchr(eng, st, ins, name, args):
    p = _conc(eng, st, args[0], "memchr")
    n = _conc(eng, st, args[2], "memchr length")
    c = args[1]
    c = (c & 255) if isinstance(c, int) else simp(z3.Extract(7, 0, c))
    for i in range(n):
        b = eng.load_bytes(st, p + i, 1)[0]
        if eng.decide(st, _byte_eq(b, c)):
            return p + i
    return 0


@model("strchr")
def m_strchr(eng, st, ins, name, args):
    p = _conc(eng, st, args[0], "strchr")
    c = args[1]
    c = (c & 255) if isinstance(c, int) else simp(z3.Extract(7, 0, c))
    i = 0
    while True:
        b = eng.load_bytes(st, p + i, 1)[0]
        if eng.decide(st, _byte_eq(b, c)):
            return p + i
        if eng.decide(st, _byte_eq(b, 0)):
            return 0
        i += 1


def _cmp_bytes(eng, st, a, b):
    """three-way compare of two byte values -> python int (forks)"""
    if isinstance(a, int) and isinstance(b, int):
        return a - b
    A, B = bvv(a, 8), bvv(b, 8)
    if eng.decide(st, A == B):
        return 0
    return -1 if eng.decide(st, z3.ULT(A, B)) else 1


@model("memcmp", "bcmp")
def m_memcmp(eng, st, ins, name, args):
    p, q = _conc(eng, st, args[0], name), _conc(eng, st, args[1], name)
    n = _conc(eng, st, args[2], name + " length")
    for i in range(n):
        d = _cmp_bytes(eng, st, eng.load_bytes(st, p + i, 1)[0], eng.load_bytes(st, q + i, 1)[0])
        if d:
            return d & mask(32)
    return 0


@model("strcmp", "strncmp")
def m_strcmp(eng, st, ins, name, args):
    p, q = _conc(eng, st, args[0], name), _conc(eng, st, args[1], name)
    n = _conc(eng, st, args[2], name) if name == "strncmp" else 1 << 30
    i = 0
    while i < n:
        a, b = eng.load_bytes(st, p + i, 1)[0], eng.load_bytes(st, q + i, 1)[0]
        d = _cmp_bytes(eng, st, a, b)
        if d:
            return d & mask(32)
        if eng.decide(st, _byte_eq(a, 0)):
            return 0
        i += 1
    return 0


def _ctype(pred):
    def f(eng, st, ins, name, args):
        c = args[0]
        eng.assumptions.add("ctype functions by their C-locale ASCII definition (arguments -128..255)")
        if isinstance(c, int):
            v = sgn(c, 32)
            return int(pred(v) if isinstance(pred(v), bool) else pred(v))
        return pred(c)
    return f


def _rng(c, lo, hi):
    if isinstance(c, int):
        return lo <= c <= hi
    return z3.And(c >= z3.BitVecVal(lo, 32), c <= z3.BitVecVal(hi, 32))


def _or(*xs):
    if all(isinstance(x, bool) for x in xs):
        return any(xs)
    return z3.Or(*[z3.BoolVal(x) if isinstance(x, bool) else x for x in xs])


def _b2i(b):
    if isinstance(b, bool):
        return int(b)
    return simp(z3.If(b, z3.BitVecVal(1, 32), z3.BitVecVal(0, 32)))


MODELS["isalpha"] = _ctype(lambda c: _b2i(_or(_rng(c, 65, 90), _rng(c, 97, 122))))
MODELS["isdigit"] = _ctype(lambda c: _b2i(_or(_rng(c, 48, 57))))
MODELS["isalnum"] = _ctype(lambda c: _b2i(_or(_rng(c, 65, 90), _rng(c, 97, 122), _rng(c, 48, 57))))
MODELS["isspace"] = _ctype(lambda c: _b2i(_or(_rng(c, 9, 13), _rng(c, 32, 32))))
MODELS["isupper"] = _ctype(lambda c: _b2i(_or(_rng(c, 65, 90))))
MODELS["islower"] = _ctype(lambda c: _b2i(_or(_rng(c, 97, 122))))


def _tocase(lo, hi, delta):
    def f(eng, st, ins, name, args):
        c = args[0]
        eng.assumptions.add("toupper/tolower by their C-locale ASCII definition")
        if isinstance(c, int):
            v = sgn(c, 32)
            return (v + delta) & mask(32) if lo <= v <= hi else c
        return simp(z3.If(_rng(c, lo, hi), c + z3.BitVecVal(delta & mask(32), 32), c))
    return f


MODELS["tolower"] = _tocase(65, 90, 32)
MODELS["toupper"] = _tocase(97, 122, -32)


@model("abort", "_ZSt9terminatev", "__cxa_pure_virtual", "exit", "_Exit")
def m_abort(eng, st, ins, name, args):
    eng.fail_path(st, "TRAP:%s called" % name, "TRAP")


@model("_ZSt21__glibcxx_assert_failPKciS0_S0_")
def m_glibcxx_assert(eng, st, ins, name, args):
    eng.fail_path(st, "UB:libstdc++ precondition violated: %s in %s" % (eng.cstring(st, args[3]), eng.cstring(st, args[2])[:120]), "UB")


@model("__assert_fail")
def m_assert_fail(eng, st, ins, name, args):
    eng.fail_path(st, "TRAP:assert(%s) failed" % eng.cstring(st, args[0]), "TRAP")


@model("__cxa_atexit", "__cxa_thread_atexit", "atexit")
def m_atexit(eng, st, ins, name, args):
    return 0


@model("__cxa_guard_acquire")
def m_guard_acq(eng, st, ins, name, args):
    b = eng.load_bytes(st, args[0], 1)[0]
    return 0 if (isinstance(b, int) and b) else 1


@model("__cxa_guard_release")
def m_guard_rel(eng, st, ins, name, args):
    eng.store_bytes(st, args[0], [1])
    return None


@model("__cxa_guard_abort")
def m_guard_abort(eng, st, ins, name, args):
    return None


@model("__errno_location")
def m_errno(eng, st, ins, name, args):
    a = st.extra.get("errno")
    if a is None:
        a = eng.alloc(st, 4, "global", "errno")
        eng.store_bytes(st, a, [0, 0, 0, 0])
        st.extra["errno"] = a
    return a


@model("getenv")
def m_getenv(eng, st, ins, name, args):
    return 0


# ---- exceptions
@model("__cxa_allocate_exception")
def m_alloc_exc(eng, st, ins, name, args):
    n = _conc(eng, st, args[0], "exception size")
    return eng.alloc(st, max(n, 1), "heap", "exception object")


@model("__cxa_free_exception")
def m_free_exc(eng, st, ins, name, args):
    return _free(eng, st, args[0], "__cxa_free_exception")


def _tname(eng, v):
    n = None
    for k, a in eng.gaddr.items():
        if a == v and k.startswith("_ZTI"):
            n = k
            break
    if n is None:
        raise Inconclusive("throw with unknown type_info %#x" % v)
    return n


@model("__cxa_throw")
def m_throw(eng, st, ins, name, args):
    obj = _conc(eng, st, args[0], "exception")
    tn = _tname(eng, _conc(eng, st, args[1], "type_info"))
    eng.throw(st, obj, tn)
    return NOFINISH


def _throw_std(eng, st, tname):
    eng.global_addr(tname) if tname in eng.m.globals else None
    obj = eng.alloc(st, 32, "heap", "exception object")
    eng.throw(st, obj, tname)
    return NOFINISH


for _n, _t in [("_ZSt20__throw_length_errorPKc", "_ZTISt12length_error"), ("_ZSt24__throw_out_of_range_fmtPKcz", "_ZTISt12out_of_range"),
               ("_ZSt20__throw_out_of_rangePKc", "_ZTISt12out_of_range"), ("_ZSt17__throw_bad_allocv", "_ZTISt9bad_alloc"),
               ("_ZSt28__throw_bad_array_new_lengthv", "_ZTISt20bad_array_new_length"), ("_ZSt19__throw_logic_errorPKc", "_ZTISt11logic_error"),
               ("_ZSt24__throw_invalid_argumentPKc", "_ZTISt16invalid_argument"), ("_ZSt21__throw_runtime_errorPKc", "_ZTISt13runtime_error"),
               ("_ZSt25__throw_bad_function_callv", "_ZTISt17bad_function_call"), ("_ZSt16__throw_bad_castv", "_ZTISt8bad_cast"),
               ("_ZSt20__throw_system_errori", "_ZTISt12system_error"), ("_ZSt19__throw_range_errorPKc", "_ZTISt11range_error"),
               ("_ZSt22__throw_overflow_errorPKc", "_ZTISt14overflow_error"), ("_ZSt20__throw_future_errori", "_ZTISt12future_error")]:
    MODELS[_n] = (lambda t: (lambda eng, st, ins, name, args: _throw_std(eng, st, t)))(_t)


@model("__cxa_begin_catch")
def m_begin_catch(eng, st, ins, name, args):
    if st.exc is None:
        raise Inconclusive("__cxa_begin_catch without exception")
    st.caught.append(st.exc)
    st.exc = None
    return st.caught[-1][0]


@model("__cxa_end_catch")
def m_end_catch(eng, st, ins, name, args):
    if not st.caught:
        raise Inconclusive("__cxa_end_catch without caught exception")
    obj, tn = st.caught.pop()
    if st.exc is not None and st.exc[0] == obj:
        return None           # being rethrown
    o = st.mem.get(obj)
    if o is not None and o.alive:
        o = eng.wobj(st, o)
        o.alive = False
    return None


@model("__cxa_rethrow")
def m_rethrow(eng, st, ins, name, args):
    if not st.caught:
        eng.fail_path(st, "TRAP:rethrow without an active exception", "TRAP")
    obj, tn = st.caught[-1]
    eng.throw(st, obj, tn)
    return NOFINISH


@model("__cxa_get_exception_ptr")
def m_get_exc_ptr(eng, st, ins, name, args):
    return args[0]


@model("_ZSt18uncaught_exceptionv")
def m_uncaught(eng, st, ins, name, args):
    return int(st.exc is not None)


# std exception classes living in libstdc++.so: constructors keep no message (what() is outside every claim)
@model_re(r"^_ZNSt(13runtime_error|11logic_error|12out_of_range|12length_error|16invalid_argument|12domain_error|11range_error|14overflow_error|15underflow_error)C[12]E")
def m_exc_ctor(eng, st, ins, name, args):
    eng.assumptions.add("std exception objects carry no message (what() is outside the claims)")
    return None


@model_re(r"^_ZNSt(13runtime_error|11logic_error|12out_of_range|12length_error|16invalid_argument|12domain_error|11range_error|14overflow_error|15underflow_error|9exception|9bad_alloc|8bad_cast)D[012]Ev")
def m_exc_dtor(eng, st, ins, name, args):
    return None


@model_re(r"^_ZNKSt(13runtime_error|11logic_error|9exception|9bad_alloc)4whatEv")
def m_exc_what(eng, st, ins, name, args):
    a = st.extra.get("what")
    if a is None:
        a = eng.alloc(st, 8, "global", "what() text")
        eng.store_bytes(st, a, [ord("v"), ord("p"), 0, 0, 0, 0, 0, 0])
        st.extra["what"] = a
    return a


@model("__dynamic_cast")
def m_dyncast(eng, st, ins, name, args):
    p = _conc(eng, st, args[0], "dynamic_cast")
    if p == 0:
        return 0
    dst = _tname(eng, _conc(eng, st, args[2], "type_info"))
    vt = eng.load(st, p, llir.I64)
    vt = _conc(eng, st, vt, "vptr")
    ti = eng.load(st, vt - 8, llir.I64)
    tn = _tname(eng, _conc(eng, st, ti, "type_info"))
    eng.assumptions.add("dynamic_cast by the static class hierarchy (single inheritance at offset 0)")
    return p if dst in eng.type_bases(tn) else 0


# ---- iostream objects constructed by libstdc++.so: an all-zero object whose vptrs lead to an all-zero table (every member function is opaque)
@model_re(r"^_ZNSt7__cxx1118basic_(i|o)?stringstreamIcSt11char_traitsIcESaIcEEC[12]E|^_ZNSt14basic_(i|o)?fstreamIcSt11char_traitsIcEEC[12]E")
def m_stream_ctor(eng, st, ins, name, args):
    eng.assumptions.add("iostream objects are opaque: zero-filled, every libstdc++.so stream member returns an unconstrained value")
    p = _conc(eng, st, args[0], "stream")
    o = eng.find_obj(st, p)
    n = o.base + o.size - p
    eng.store_bytes(st, p, [0] * n)
    vp = list(eng.fake_vptr().to_bytes(8, "little"))
    for off in (0, 16, 128):
        if off + 8 <= n:
            eng.store_bytes(st, p + off, vp)
    ct = list(eng.fake_ctype().to_bytes(8, "little"))
    for off in (240, 256, 368):
        if off + 8 <= n:
            eng.store_bytes(st, p + off, ct)
    return None


# ---- threads and synchronisation
def _me(st):
    return st.threads[st.cur] if st.threads is not None else None


@model("vp_sched")
def m_sched(eng, st, ins, name, args):
    """vp_sched(p): from here on explore schedules with at most p preemptions (switches at blocking points are free)"""
    v = _conc(eng, st, args[0], "vp_sched")
    st.preempt_left = v & 0xff
    eng.explore = True
    eng.explore_loads = bool(v & 0x100)     # VP_SCHED_LOADS: atomic loads are preemption points as well
    return None


@model("vp_spawn")
def m_vp_spawn(eng, st, ins, name, args):
    fnaddr = _conc(eng, st, args[0], "thread function")
    fname = eng.fbyaddr.get(fnaddr)
    if fname is None or eng.m.funcs[fname].is_decl:
        raise Inconclusive("vp_spawn with unknown function")
    eng.spawn(st, eng.m.funcs[fname], [args[1]], "vp_spawn " + fname)
    return None


@model("pthread_create")
def m_pthread_create(eng, st, ins, name, args):
    fnaddr = _conc(eng, st, args[2], "thread function")
    fname = eng.fbyaddr.get(fnaddr)
    if fname is None or fname not in eng.m.funcs or eng.m.funcs[fname].is_decl:
        raise Inconclusive("pthread_create with unknown start routine")
    tid = eng.spawn(st, eng.m.funcs[fname], [args[3]], "pthread " + fname)
    eng.store(st, args[0], tid, llir.I64)
    st.extra["threads_created"] = st.extra.get("threads_created", 0) + 1
    return 0


def _thread_by_tid(st, tid):
    for t in st.threads or []:
        if t["tid"] == tid:
            return t
    return None


@model("pthread_join")
def m_pthread_join(eng, st, ins, name, args):
    tid = _conc(eng, st, args[0], "pthread_join")
    t = _thread_by_tid(st, tid)
    if t is None:
        return 3
    if t["status"] != "done":
        eng.block(st, ("join", tid))
        return NOFINISH
    return 0


@model("pthread_cancel")
def m_pthread_cancel(eng, st, ins, name, args):
    tid = _conc(eng, st, args[0], "pthread_cancel")
    t = _thread_by_tid(st, tid)
    if t is not None and t["status"] != "done":
        # cancellation is acted on at the target's next cancellation point; a blocked or idle worker simply ends
        t["status"] = "done"
        t["cancelled"] = True
        eng.wake(st, lambda w: w == ("join", tid))
    return 0


@model("pthread_detach", "pthread_setcancelstate", "pthread_setcanceltype", "pthread_attr_init", "pthread_attr_destroy", "pthread_attr_setstacksize", "pthread_setname_np", "pthread_setaffinity_np")
def m_pthread_misc(eng, st, ins, name, args):
    return 0


@model("pthread_self")
def m_pthread_self(eng, st, ins, name, args):
    return eng.cur_tid


@model("_ZNSt6thread20hardware_concurrencyEv", "get_nprocs")
def m_hw(eng, st, ins, name, args):
    eng.assumptions.add("hardware_concurrency() = 3")
    return 3


@model("sysconf")
def m_sysconf(eng, st, ins, name, args):
    eng.assumptions.add("sysconf(_SC_NPROCESSORS_ONLN) = 3")
    return 3


@model("_ZNSt6thread15_M_start_threadESt10unique_ptrINS_6_StateESt14default_deleteIS1_EEPFvvE")
def m_thread_start(eng, st, ins, name, args):
    th, up = args[0], args[1]
    state = eng.load(st, up, llir.I64)
    state = _conc(eng, st, state, "thread state")
    vt = _conc(eng, st, eng.load(st, state, llir.I64), "vptr")
    fnaddr = _conc(eng, st, eng.load(st, vt + 16, llir.I64), "_M_run")
    fname = eng.fbyaddr.get(fnaddr)
    if fname is None:
        raise Inconclusive("std::thread state without _M_run")
    tid = eng.spawn(st, eng.m.funcs[fname], [state], "std::thread")
    eng.store(st, up, 0, llir.I64)
    eng.store(st, th, tid, llir.I64)
    st.extra["threads_created"] = st.extra.get("threads_created", 0) + 1
    return None


@model("_ZNSt6thread4joinEv")
def m_thread_join(eng, st, ins, name, args):
    tid = _conc(eng, st, eng.load(st, args[0], llir.I64), "thread id")
    t = _thread_by_tid(st, tid)
    if t is None:
        return _throw_std(eng, st, "_ZTISt12system_error")
    if t["tid"] == eng.cur_tid:
        return _throw_std(eng, st, "_ZTISt12system_error")
    if t["status"] != "done":
        eng.block(st, ("join", tid))
        return NOFINISH
    eng.store(st, args[0], 0, llir.I64)
    return None


@model("_ZNSt6thread6detachEv")
def m_thread_detach(eng, st, ins, name, args):
    eng.store(st, args[0], 0, llir.I64)
    return None


@model("_ZNSt6thread6_StateD2Ev", "_ZNSt6thread6_StateD1Ev", "_ZNSt6thread6_StateD0Ev")
def m_thread_state_dtor(eng, st, ins, name, args):
    return None


@model("vp_threads_created")
def m_threads_created(eng, st, ins, name, args):
    return st.extra.get("threads_created", 0)


@model("vp_threads_live")
def m_threads_live(eng, st, ins, name, args):
    return sum(1 for t in (st.threads or []) if t["status"] != "done" and t["tid"] != eng.cur_tid)


@model("vp_workers_mode")
def m_workers_mode(eng, st, ins, name, args):
    return None


@model("sched_yield", "_ZNSt11this_thread5yieldEv", "usleep", "nanosleep", "_ZNSt11this_thread11__sleep_forENSt6chrono8durationIlSt5ratioILl1ELl1EEEENS1_IlS2_ILl1ELl1000000000EEEE")
def m_yield(eng, st, ins, name, args):
    if st.threads is not None:
        eng.sync_point(st, voluntary=True)
    return 0


@model("sem_init")
def m_sem_init(eng, st, ins, name, args):
    v = args[2]
    eng.store(st, args[0], v, llir.I32)
    return 0


@model("sem_destroy")
def m_sem_destroy(eng, st, ins, name, args):
    return 0


@model("sem_post")
def m_sem_post(eng, st, ins, name, args):
    a = _conc(eng, st, args[0], "sem")
    eng.sync_point(st)
    c = _conc(eng, st, eng.load(st, a, llir.I32), "semaphore count")
    eng.store(st, a, (c + 1) & mask(32), llir.I32)
    eng.wake(st, lambda w: w == ("sem", a), one=True)
    return 0


@model("sem_wait")
def m_sem_wait(eng, st, ins, name, args):
    a = _conc(eng, st, args[0], "sem")
    c = _conc(eng, st, eng.load(st, a, llir.I32), "semaphore count")
    if c > 0:
        eng.store(st, a, c - 1, llir.I32)
        return 0
    if st.threads is None:
        eng.fail_path(st, "SCHED:deadlock - sem_wait on an empty semaphore with no other thread", "SCHED")
    eng.block(st, ("sem", a))
    return NOFINISH


def _mutexes(st):
    return st.extra.setdefault("mutex", {})


@model("pthread_mutex_lock")
def m_mutex_lock(eng, st, ins, name, args):
    a = _conc(eng, st, args[0], "mutex")
    mx = _mutexes(st)
    owner = mx.get(a)
    if owner is None:
        eng.sync_point(st)
        mx = _mutexes(st)
        mx[a] = eng.cur_tid
        return 0
    if owner == eng.cur_tid:
        eng.fail_path(st, "SCHED:deadlock - non-recursive mutex locked twice by the same thread", "SCHED")
    if st.threads is None:
        eng.fail_path(st, "SCHED:deadlock - mutex held and no other thread", "SCHED")
    eng.block(st, ("mutex", a))
    return NOFINISH


@model("pthread_mutex_trylock")
def m_mutex_trylock(eng, st, ins, name, args):
    a = _conc(eng, st, args[0], "mutex")
    mx = _mutexes(st)
    if mx.get(a) is None:
        mx[a] = eng.cur_tid
        return 0
    return 16


@model("pthread_mutex_unlock")
def m_mutex_unlock(eng, st, ins, name, args):
    a = _conc(eng, st, args[0], "mutex")
    eng.sync_point(st)
    mx = _mutexes(st)
    if mx.get(a) != eng.cur_tid:
        eng.fail_path(st, "UB:mutex unlocked by a thread that does not hold it", "UB")
    del mx[a]
    eng.wake(st, lambda w: w == ("mutex", a))
    me = _me(st)
    if me is not None:
        me["post_sync"] = True     # the instruction after the release is a scheduling point too (code that leaves the critical section early)
    return 0


@model("pthread_mutex_init", "pthread_mutex_destroy", "pthread_cond_init", "pthread_cond_destroy", "_ZNSt18condition_variableC1Ev", "_ZNSt18condition_variableC2Ev", "_ZNSt18condition_variableD1Ev", "_ZNSt18condition_variableD2Ev")
def m_sync_init(eng, st, ins, name, args):
    return 0


def _cv_wait(eng, st, cv, mtx):
    me = _me(st)
    mx = _mutexes(st)
    if me is None:
        eng.fail_path(st, "SCHED:deadlock - condition wait with no other thread", "SCHED")
    if me["phase"] == 0:
        if mx.get(mtx) != eng.cur_tid:
            eng.fail_path(st, "UB:condition_variable::wait without holding the mutex", "UB")
        eng.sync_point(st)      # a thread that does not take the mutex can run between the predicate check and the wait
        mx = _mutexes(st)
        del mx[mtx]
        eng.wake(st, lambda w: w == ("mutex", mtx))
        me["phase"] = 1
        eng.block(st, ("cv", cv))
        return NOFINISH
    # woken: re-acquire the mutex
    if mx.get(mtx) is None:
        mx[mtx] = eng.cur_tid
        me["phase"] = 0
        return 0
    eng.block(st, ("mutex", mtx))
    return NOFINISH


@model("_ZNSt18condition_variable4waitERSt11unique_lockISt5mutexE")
def m_cv_wait(eng, st, ins, name, args):
    cv = _conc(eng, st, args[0], "cv")
    mtx = _conc(eng, st, eng.load(st, args[1], llir.I64), "mutex")
    r = _cv_wait(eng, st, cv, mtx)
    return None if r == 0 else r


@model("pthread_cond_wait")
def m_pcond_wait(eng, st, ins, name, args):
    return _cv_wait(eng, st, _conc(eng, st, args[0], "cv"), _conc(eng, st, args[1], "mutex"))


@model("_ZNSt18condition_variable10notify_oneEv", "pthread_cond_signal")
def m_cv_notify_one(eng, st, ins, name, args):
    cv = _conc(eng, st, args[0], "cv")
    eng.sync_point(st)
    eng.wake(st, lambda w: w == ("cv", cv), one=True)
    return 0 if name.startswith("pthread") else None


@model("_ZNSt18condition_variable10notify_allEv", "pthread_cond_broadcast")
def m_cv_notify_all(eng, st, ins, name, args):
    cv = _conc(eng, st, args[0], "cv")
    eng.sync_point(st)
    eng.wake(st, lambda w: w == ("cv", cv))
    return 0 if name.startswith("pthread") else None


# ---- stdio: output is discarded
@model("printf", "fprintf", "puts", "fputs", "fputc", "putchar", "fflush", "fclose", "vfprintf", "perror")
def m_stdio(eng, st, ins, name, args):
    return 0


@model("fwrite")
def m_fwrite(eng, st, ins, name, args):
    n = _conc(eng, st, args[1], "fwrite") * _conc(eng, st, args[2], "fwrite")
    if n:
        eng.load_bytes(st, args[0], n)
    return args[2]


if __name__ == "__main__":
    sys.exit(main())
