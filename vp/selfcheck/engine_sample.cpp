#include "vp.h"
#include <string>
#include <vector>
#include <stdexcept>
static std::string sym(int n) { std::string s; s.resize(n); for (int i = 0; i < n; i++) { unsigned k = vp_choose(3); s[i] = ":ab"[k]; } return s; }
VP_ENTRY vp_main_t1() {
  std::string s = sym(3);
  std::vector<std::string> v;
  size_t prev = 0, f;
  while ((f = s.find(':', prev)) != std::string::npos) { if (f > prev) v.push_back(s.substr(prev, f - prev)); prev = f + 1; }
  if (s.size() > prev) v.push_back(s.substr(prev));
  int n = 0; for (int i = 0; i < 3; i++) if (s[i] != ':' && (i == 0 || s[i-1] == ':')) n++;
  vp_assert((int)v.size() == n, "token count");
  vp_reach("end");
}
VP_ENTRY vp_main_t2() {
  int x = (int)vp_nondet_u8();
  bool caught = false;
  try { if (x == 7) throw std::runtime_error("boo"); std::string s("abcdefghijklmnopqrstuvwxyz"); s.at(x); } catch (const std::out_of_range &) { caught = true; } catch (const std::runtime_error &) { caught = (x == 7); vp_assert(x == 7, "rt only for 7"); }
  vp_assert(caught == (x == 7 || x >= 26), "caught iff");
  int *p = new int[4]; p[x & 3] = 1; vp_assert(x != 200, "x is not 200");
  delete[] p;
  vp_reach("end");
}
VP_ENTRY vp_main_t3() { char *b = new char[3]; unsigned k = vp_choose(5); b[k] = 1; delete[] b; }
