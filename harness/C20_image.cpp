// C20 (image part): writePPM / writePGM / writePFM emit a correct header and exactly the input pixels, reading only w*h pixels.
#include "vp.h"
#include <cstdio>
#include <cstring>
#include <cstdlib>
#include "rkcommon/utility/SaveImage.h"
using namespace rkcommon;
using namespace rkcommon::utility;
#ifndef SMAX
#define SMAX 2
#endif
struct Capture { int open, closed, nprintf; const char *fmt0; uint32_t a0, a1; const char *fmt1; uint8_t data[192]; uint64_t ndata; int fail_open; };
extern "C" Capture *vp_file(void);

#ifdef VP_NATIVE_BUILD
// native replay: the real stdio writes a real file; decode it back into the capture record
static Capture g_cap; static char g_name[64]; static char g_hdr[64];
extern "C" Capture *vp_file(void) { return &g_cap; }
static const char *fname() { snprintf(g_name, sizeof g_name, "/tmp/vp_c20_%d.img", (int)getpid()); return g_name; }
static void collect(const char *fmt, int w, int h)
{
  FILE *f = fopen(g_name, "rb"); if (!f) { g_cap.open = 0; return; }
  static uint8_t all[512]; size_t n = fread(all, 1, sizeof all, f); fclose(f); remove(g_name);
  int hl = snprintf(g_hdr, sizeof g_hdr, fmt, w, h);
  g_cap.open = 1; g_cap.closed = 1; g_cap.nprintf = 2;
  bool hdr_ok = n >= (size_t)hl && memcmp(all, g_hdr, hl) == 0;
  g_cap.fmt0 = hdr_ok ? fmt : "BAD"; g_cap.a0 = w; g_cap.a1 = h;
  g_cap.fmt1 = (n > (size_t)hl && all[n - 1] == '\n') ? "\n" : "BAD";
  g_cap.ndata = hdr_ok ? n - hl - 1 : 0; memcpy(g_cap.data, all + hl, g_cap.ndata > 192 ? 192 : g_cap.ndata);
}
#include <unistd.h>
#else
static const char *fname() { return "f"; }
static void collect(const char *, int, int) {}
#endif

static void check_header(const char *fmt, int w, int h)
{
  Capture *c = vp_file();
  vp_assert(c->open == 1 && c->closed == 1, "file opened once and closed");
  vp_assert(strcmp(c->fmt0, fmt) == 0 && (int)c->a0 == w && (int)c->a1 == h, "header is the format's magic with width and height");
  vp_assert(c->nprintf == 2 && strcmp(c->fmt1, "\n") == 0, "trailing newline after the payload");
}

// image sizes are compile-time constants per entry (every w,h in 1..SMAX gets its own entry), pixel contents symbolic
template <bool GRAY, int W, int H> static void t_ppm()
{
  vp_nothrow(true);
  const int w = W, h = H;
  uint32_t *px = new uint32_t[w * h];           // exactly w*h pixels: any read past them is out of bounds
  for (int i = 0; i < w * h; i++) px[i] = vp_nondet_u32();
  if (GRAY) writePGM(fname(), w, h, px); else writePPM(fname(), w, h, px);
  const char *fmt = GRAY ? "P5\n%i %i\n255\n" : "P6\n%i %i\n255\n";
  collect(fmt, w, h);
  check_header(fmt, w, h);
  Capture *c = vp_file();
  const int nc = GRAY ? 1 : 3;
  vp_assert(c->ndata == (uint64_t)(nc * w * h), "payload length = channels*w*h bytes");
  for (int y = 0; y < h; y++) for (int x = 0; x < w; x++) {
    uint32_t p = px[(h - 1 - y) * w + x];        // rows bottom-up
    if (GRAY) vp_assert(c->data[y * w + x] == ((p >> 24) & 255), "PGM byte = alpha channel of the flipped row's pixel");
    else for (int k = 0; k < 3; k++) vp_assert(c->data[3 * (y * w + x) + k] == ((p >> (8 * k)) & 255), "PPM bytes = r,g,b of the flipped row's pixel");
  }
  delete[] px;
  vp_reach("end");
}
#define SHAPES(M) M(1, 1) M(1, 2) M(2, 1) M(2, 2) M(1, 3) M(3, 1) M(2, 3) M(3, 2) M(3, 3)
#define PPM_E(W, H) VP_ENTRY vp_main_ppm_##W##x##H() { t_ppm<false, W, H>(); } VP_ENTRY vp_main_pgm_##W##x##H() { t_ppm<true, W, H>(); }
SHAPES(PPM_E)

template <typename T, int PC, int NC, int W, int H> static void t_pfm(const char *fmt)
{
  vp_nothrow(true);
  const int w = W, h = H;
  T *px = (T *)new float[PC * w * h];
  float *fl = (float *)px;
  for (int i = 0; i < PC * w * h; i++) fl[i] = vp_nondet_f32();
  writePFM<T>(fname(), w, h, px);
  collect(fmt, w, h);
  check_header(fmt, w, h);
  Capture *c = vp_file();
  vp_assert(c->ndata == (uint64_t)(4 * NC * w * h), "payload length = 4*channels*w*h bytes");
  for (int y = 0; y < h; y++) for (int x = 0; x < w; x++) for (int k = 0; k < NC; k++) {
    float got; memcpy(&got, &c->data[4 * (NC * (y * w + x) + k)], 4);
    float want = fl[PC * (y * w + x) + k];       // rows as given, channel k of the pixel
    vp_assert(memcmp(&got, &want, 4) == 0, "PFM float = channel k of pixel (x,y), rows as given");
  }
  delete[] fl;
  vp_reach("end");
}
#define PFM_E(W, H) \
  VP_ENTRY vp_main_pfm_f_##W##x##H() { t_pfm<float, 1, 1, W, H>("Pf\n%i %i\n-1.0\n"); } \
  VP_ENTRY vp_main_pfm_3f_##W##x##H() { t_pfm<math::vec3f, 3, 3, W, H>("PF\n%i %i\n-1.0\n"); } \
  VP_ENTRY vp_main_pfm_3fa_##W##x##H() { t_pfm<math::vec3fa, 4, 3, W, H>("PF\n%i %i\n-1.0\n"); } \
  VP_ENTRY vp_main_pfm_4f_##W##x##H() { t_pfm<math::vec4f, 4, 4, W, H>("PF4\n%i %i\n-1.0\n"); }
SHAPES(PFM_E)

// Histories: two images written one after the other by the same thread in the same format (second one narrower, wider,
// or of equal size): each file must depend only on its own call's arguments - nothing carried over from the previous call.
static void cap_reset() { Capture *c = vp_file(); c->open = 0; c->closed = 0; c->nprintf = 0; c->ndata = 0; c->fmt0 = ""; c->fmt1 = ""; }
#define SEQ_PPM(n, G, W1, H1, W2, H2) VP_ENTRY vp_main_##n() { t_ppm<G, W1, H1>(); cap_reset(); t_ppm<G, W2, H2>(); }
SEQ_PPM(ppm_seq_21_12, false, 2, 1, 1, 2) SEQ_PPM(ppm_seq_11_22, false, 1, 1, 2, 2) SEQ_PPM(pgm_seq_21_12, true, 2, 1, 1, 2) SEQ_PPM(pgm_seq_22_11, true, 2, 2, 1, 1)
#define SEQ_PFM(n, T, PC, NC, F, W1, H1, W2, H2) VP_ENTRY vp_main_##n() { t_pfm<T, PC, NC, W1, H1>(F); cap_reset(); t_pfm<T, PC, NC, W2, H2>(F); }
SEQ_PFM(pfm_f_seq_21_12, float, 1, 1, "Pf\n%i %i\n-1.0\n", 2, 1, 1, 2) SEQ_PFM(pfm_3f_seq_21_11, math::vec3f, 3, 3, "PF\n%i %i\n-1.0\n", 2, 1, 1, 1)
SEQ_PFM(pfm_3fa_seq_21_12, math::vec3fa, 4, 3, "PF\n%i %i\n-1.0\n", 2, 1, 1, 2) SEQ_PFM(pfm_4f_seq_21_11, math::vec4f, 4, 4, "PF4\n%i %i\n-1.0\n", 2, 1, 1, 1)

VP_ENTRY vp_main_open_fails()
{
  vp_file()->fail_open = 1;
  uint32_t px[1] = {0};
  bool threw = false;
#ifdef VP_NATIVE_BUILD
  const char *name = "/nonexistent-directory-vp/x.img";
#else
  const char *name = "f";
#endif
  try { writePPM(name, 1, 1, px); } catch (const std::runtime_error &) { threw = true; }
  vp_assert(threw, "unopenable file throws runtime_error");
  vp_reach("end");
}
