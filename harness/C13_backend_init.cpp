// C13, TBB and OpenMP configurations: the *reporting* half of the property (numTaskingThreads() before / after
// initTaskingSystem(n) and after every re-initialisation).  tasking_system_init.cpp is the real code, compiled with the real
// <tbb/global_control.h> / <omp.h>; the closed libraries behind them are replaced - in the symbolic build only - by their
// documented contracts (below).  The native replay links the real libtbb / libgomp.
#include "vp.h"
#include "rkcommon/tasking/tasking_system_init.h"
#include "rkcommon/tasking/detail/tasking_system_init.cpp"
using namespace rkcommon::tasking;
#ifndef HIST
#define HIST 3
#endif

#ifndef VP_NATIVE_BUILD
static size_t g_hw;     // the library's default concurrency on this machine: an arbitrary positive number
#if defined(RKCOMMON_TASKING_TBB)
// oneTBB reference, global_control: "max_allowed_parallelism - the active value is the minimum over all live global_control
// objects of that parameter; with none alive it is the default number of threads"
namespace tbb { namespace detail { namespace r1 {
static d1::global_control *g_live[4]; static int g_nlive;
void create(d1::global_control &gc) { if (g_nlive >= 4) __builtin_trap();   /* bound of the model: 4 live controls */ g_live[g_nlive++] = &gc; }
void destroy(d1::global_control &gc)
{
  int at = -1; for (int i = 0; i < g_nlive; i++) if (g_live[i] == &gc) at = i;
  if (at < 0) __builtin_trap();          /* a control destroyed twice or never created */
  for (int i = at; i + 1 < g_nlive; i++) g_live[i] = g_live[i + 1];
  g_nlive--;
}
std::size_t global_control_active_value(int p)
{
  bool any = false; std::size_t v = 0;
  for (int i = 0; i < g_nlive; i++) if ((int)g_live[i]->my_param == p) { if (!any || g_live[i]->my_value < v) v = g_live[i]->my_value; any = true; }
  return any ? v : g_hw;
}
}}}
#elif defined(RKCOMMON_TASKING_OMP)
// OpenMP 5.x, 3.2.1/3.2.3: omp_set_num_threads sets nthreads-var of the calling task; omp_get_max_threads returns it (initially
// the implementation default)
static int g_nthreads_var; static bool g_omp_set;
extern "C" void omp_set_num_threads(int n) { if (n <= 0) __builtin_trap(); /* the argument must be positive */ g_nthreads_var = n; g_omp_set = true; }
extern "C" int omp_get_max_threads(void) { return g_omp_set ? g_nthreads_var : (int)g_hw; }
#endif
#endif

VP_ENTRY vp_main_backend_init()
{
  vp_nothrow(true);
  size_t hw = vp_nondet_u32(); vp_assume(hw >= 1 && hw <= 4096);
#ifndef VP_NATIVE_BUILD
  g_hw = hw;
#endif
  vp_assert(numTaskingThreads() == 0, "before initialisation numTaskingThreads() is 0");
  int n = (int)vp_nondet_u32(); vp_assume(n >= -2 && n <= 1000);
  initTaskingSystem(n, false);
  int got = numTaskingThreads();
  if (n > 0) vp_assert(got == n, "after initTaskingSystem(n), n > 0, numTaskingThreads() returns n");
  else vp_assert(got >= 1, "a first initialisation with n <= 0 selects a positive default");
  for (int s = 0; s < HIST; s++) {
    int m = (int)vp_nondet_u32(); vp_assume(m >= -2 && m <= 1000);
    initTaskingSystem(m, false);
    got = numTaskingThreads();
    if (m > 0) vp_assert(got == m, "initialising again with m > 0 replaces the previous setting");
    else vp_assert(got >= 1, "re-initialisation with m <= 0 still reports a positive count");
  }
  vp_reach("end");
}
