// C08: reference counting destroys each object exactly once, at the last release.
#include "vp.h"
#include <utility>
#include "rkcommon/memory/IntrusivePtr.h"
#include "rkcommon/memory/RefCount.h"
using namespace rkcommon::memory;
#ifndef STEPS
#define STEPS 3
#endif
static int g_dtor[2];
struct Obj : public RefCountedObject { int id; Obj(int i) : id(i) {} ~Obj() override { g_dtor[id]++; } };
struct Der : public Obj { int extra; Der(int i) : Obj(i), extra(7) {} };

VP_ENTRY vp_main_hist()
{
  vp_nothrow(true);
  g_dtor[0] = g_dtor[1] = 0;
  Obj *obj[2] = {new Obj(0), new Der(1)};
  bool creator[2] = {true, true};            // the creator's reference (count starts at 1)
  IntrusivePtr<Obj> h[3];
  for (int s = 0; s < STEPS; s++) {
    unsigned op = vp_choose(9), i = vp_choose(3), j = vp_choose(3), o = vp_choose(2);
    bool alive_o = (creator[o] ? 1 : 0) + (h[0].ptr == obj[o]) + (h[1].ptr == obj[o]) + (h[2].ptr == obj[o]) > 0;
    switch (op) {
    case 0: h[i] = h[j]; break;                                        // copy assignment (incl. self-assignment)
    case 1: if (i != j) h[i] = std::move(h[j]); break;                 // move assignment (incl. from empty)
    case 2: if (alive_o) h[i] = obj[o]; break;                         // raw-pointer assignment
    case 3: h[i] = (Obj *)nullptr; break;                              // assigning null
    case 4: { IntrusivePtr<Obj> t(h[j]); vp_assert(t == h[j] && !(t != h[j]), "copy equals its source"); } break;   // copy construct + destroy
    case 5: { IntrusivePtr<Obj> t(std::move(h[j])); vp_assert(!h[j], "moved-from handle is empty"); h[j] = t; } break;
    case 6: if (alive_o && creator[o]) { obj[o]->refDec(); creator[o] = false; } break;     // creator drops its reference
    case 7: if (alive_o) { obj[o]->refInc(); obj[o]->refDec(); } break;
    case 8: if (alive_o && o == 1) { IntrusivePtr<Der> d((Der *)obj[1]); IntrusivePtr<Obj> b(d); vp_assert(b.ptr == obj[1], "derived-to-base conversion keeps the target"); h[i] = b; } break;
    }
    for (int k = 0; k < 2; k++) {
      int refs = (creator[k] ? 1 : 0) + (h[0].ptr == obj[k]) + (h[1].ptr == obj[k]) + (h[2].ptr == obj[k]);
      vp_assert(g_dtor[k] == (refs == 0 ? 1 : 0), "destroyed exactly once, exactly when the last reference is released");
      if (refs > 0) vp_assert(obj[k]->useCount() == refs, "useCount = creator reference + live handles");
    }
    vp_assert((h[0] == h[1]) == (h[0].ptr == h[1].ptr) && bool(h[2]) == (h[2].ptr != nullptr), "handles equal exactly when they point at the same object");
  }
  // release everything: every object destroyed exactly once
  for (int k = 0; k < 3; k++) h[k] = (Obj *)nullptr;
  for (int k = 0; k < 2; k++) if (creator[k]) obj[k]->refDec();
  vp_assert(g_dtor[0] == 1 && g_dtor[1] == 1, "after releasing all references each object was destroyed exactly once");
  vp_reach("end");
}

// two logical threads, each taking and dropping references on a shared object: the counter accesses must be race-free
// (lockset discipline with the ATOMIC pseudo-lock; decided sequentially, confirmed natively with ThreadSanitizer) and the
// count exact afterwards
static Obj *g_shared;
static void use_refs()
{
  IntrusivePtr<Obj> mine(g_shared);        // +1
  IntrusivePtr<Obj> copy(mine);            // +1
  IntrusivePtr<Obj> other;
  other = copy;                            // +1
}                                          // -3
#ifdef VP_NATIVE_STRESS
#include <thread>
VP_ENTRY vp_main_threads()
{
  for (int it = 0; it < 2000; it++) {
    g_dtor[0] = 0; g_shared = new Obj(0);
    std::thread a(use_refs), b(use_refs); a.join(); b.join();
    if (g_shared->useCount() != 1) { vp_assert(false, "count back to the creator's reference after both threads finished"); }
    g_shared->refDec();
  }
}
#else
VP_ENTRY vp_main_threads()
{
  vp_nothrow(true);
  g_dtor[0] = 0;
  g_shared = new Obj(0);                     // creator reference
  vp_shared(g_shared, sizeof(Obj));
  vp_thread(1); use_refs();
  vp_thread(2); use_refs();
  vp_thread(1);
  vp_assert(g_dtor[0] == 0, "object alive while the creator reference remains");
  vp_assert(g_shared->useCount() == 1, "count back to the creator's reference after both threads finished");
  g_shared->refDec();
  vp_assert(g_dtor[0] == 1, "destroyed exactly once by the last release");
  vp_reach("end");
}
#endif
