// C05: ranges and boxes behave as closed axis-aligned sets.
#include "vp.h"
#include <cfloat>
#include "rkcommon/math/box.h"
#include "rkcommon/math/AffineSpace.h"
using namespace rkcommon::math;

template <typename T> static inline T in();
template <> inline float in<float>() { float v = vp_nondet_f32(); vp_assume(v == v); return v; }   // no NaN, +-inf allowed
template <> inline int in<int>() { int v = vp_nondet_int(); vp_assume(v > -1000000000 && v < 1000000000); return v; }

template <typename T, int N, bool A = false> struct S;   // shape helpers: V = point type, component access by member
template <typename T> struct S<T, 1> { typedef T V; static T g(const V &v, int) { return v; } static V mk() { return in<T>(); } };
template <typename T> struct S<T, 2> { typedef vec_t<T, 2> V; static T g(const V &v, int k) { return k == 0 ? v.x : v.y; } static V mk() { T x = in<T>(), y = in<T>(); return V(x, y); } };
template <typename T, bool A> struct S<T, 3, A> { typedef vec_t<T, 3, A> V; static T g(const V &v, int k) { return k == 0 ? v.x : k == 1 ? v.y : v.z; } static V mk() { T x = in<T>(), y = in<T>(), z = in<T>(); return V(x, y, z); } };
template <typename T> struct S<T, 4> { typedef vec_t<T, 4> V; static T g(const V &v, int k) { return k == 0 ? v.x : k == 1 ? v.y : k == 2 ? v.z : v.w; } static V mk() { T x = in<T>(), y = in<T>(), z = in<T>(), w = in<T>(); return V(x, y, z, w); } };
#define FORK for (int k = 0; k < N; k++)
#define G(v) SS::g(v, k)
template <typename T> static inline T mn(T a, T b) { return b < a ? b : a; }
template <typename T> static inline T mx(T a, T b) { return a < b ? b : a; }

template <typename T, int N, bool A = false> static void t_set()
{
  typedef S<T, N, A> SS; typedef typename SS::V V; typedef range_t<V> B;
  V al = SS::mk(), au = SS::mk(), bl = SS::mk(), bu = SS::mk(), p = SS::mk();
  B a(al, au), b(bl, bu);
  // contains
  { bool in_ = true; FORK in_ = in_ & (G(al) <= G(p)) & (G(p) <= G(au)); vp_assert(a.contains(p) == in_, "contains <=> lower<=p<=upper in every component"); }
  // empty
  { bool e = false; FORK e = e | (G(au) < G(al)); vp_assert(a.empty() == e, "empty <=> some upper<lower"); }
  // extend(point), extend(box): componentwise min/max
  { B c = a; c.extend(p); FORK { vp_assert(G(c.lower) == mn(G(al), G(p)), "extend(p) lower = min"); vp_assert(G(c.upper) == mx(G(au), G(p)), "extend(p) upper = max"); }
    vp_assert(c.contains(p), "extended box contains the point"); }
  { B c = a; c.extend(b); FORK { vp_assert(G(c.lower) == mn(G(al), G(bl)), "extend(box) lower = min"); vp_assert(G(c.upper) == mx(G(au), G(bu)), "extend(box) upper = max"); } }
  // default-constructed / empty box is the identity of extend
  { B e; vp_assert(e.empty(), "default box is empty"); B c = e; c.extend(a); FORK { vp_assert(G(c.lower) == G(al), "empty.extend(a).lower = a.lower"); vp_assert(G(c.upper) == G(au), "empty.extend(a).upper = a.upper"); }
    B d = a; d.extend(e); FORK { vp_assert(G(d.lower) == G(al), "a.extend(empty).lower = a.lower"); vp_assert(G(d.upper) == G(au), "a.extend(empty).upper = a.upper"); }
    B f = e; f.extend(p); FORK { vp_assert(G(f.lower) == G(p) && G(f.upper) == G(p), "empty.extend(p) = [p,p]"); } }
  // clamp
  { bool ne = true; FORK ne = ne & (G(al) <= G(au));
    if (ne) { V c = a.clamp(p); vp_assert(a.contains(c), "clamp result is inside the box");
      FORK vp_assert(G(c) == (G(p) < G(al) ? G(al) : (G(au) < G(p) ? G(au) : G(p))), "clamp is the nearest contained point per axis"); } }
  // == / !=
  { bool e = true; FORK e = e & (G(al) == G(bl)) & (G(au) == G(bu)); vp_assert((a == b) == e, "operator=="); vp_assert((a != b) == !e, "operator!="); }
  vp_reach("set-end");
}

template <typename T, int N, bool A = false> static void t_inter()
{
  typedef S<T, N, A> SS; typedef typename SS::V V; typedef box_t<T, N, A> B;
  V al = SS::mk(), au = SS::mk(), bl = SS::mk(), bu = SS::mk(), p = SS::mk();
  B a(al, au), b(bl, bu);
  B i = intersectionOf(a, b);
  vp_assert(i.contains(p) == (a.contains(p) & b.contains(p)), "intersectionOf contains exactly the common points");
  bool ne = true; FORK ne = ne & (G(al) <= G(au)) & (G(bl) <= G(bu));
  if (ne) {
    bool sep = false; FORK sep = sep | (G(au) < G(bl)) | (G(bu) < G(al));
    vp_assert(disjoint(a, b) == sep, "disjoint <=> separated along some axis");
    vp_assert(i.empty() == disjoint(a, b), "intersection empty exactly when disjoint");
    vp_assert(touchingOrOverlapping(a, b) == !disjoint(a, b), "touchingOrOverlapping is the negation of disjoint");
  }
  vp_reach("inter-end");
}

// definitions: size, center, area, volume, scaling, translation
VP_ENTRY vp_main_defs()
{
  typedef S<float, 3> SS; const int N = 3;
  vec3f l = SS::mk(), u = SS::mk(), s = SS::mk();
  box3f b(l, u);
  FORK { vp_assert(vp_feq(G(b.size()), G(u) - G(l)), "size = upper-lower"); vp_assert(vp_feq(G(b.center()), .5f * (G(l) + G(u))), "center = (lower+upper)/2");
         vp_assert(vp_feq(G(center(b)), .5f * (G(l) + G(u))), "center(box)");
         vp_assert(vp_feq(G((b * s).lower), G(l) * G(s)) && vp_feq(G((b * s).upper), G(u) * G(s)), "box*scale");
         vp_assert(vp_feq(G((s * b).lower), G(l) * G(s)) && vp_feq(G((s * b).upper), G(u) * G(s)), "scale*box");
         vp_assert(vp_feq(G((b + s).lower), G(l) + G(s)) && vp_feq(G((b + s).upper), G(u) + G(s)), "box+translation");
         vp_assert(vp_feq(G((s + b).lower), G(l) + G(s)) && vp_feq(G((s + b).upper), G(u) + G(s)), "translation+box"); }
  float sx = u.x - l.x, sy = u.y - l.y, sz = u.z - l.z;
  vp_assert(vp_feq(volume(b), sx * sy * sz), "volume = product of sizes");
  vp_assert(vp_feq(area(b), 2.f * (sx * sy + sx * sz + sy * sz)), "area(3D) = 2(xy+xz+yz)");
  vec2f l2(l.x, l.y), u2(u.x, u.y); box2f b2(l2, u2);
  vp_assert(vp_feq(area(b2), sx * sy), "area(2D) = x*y");
  range1f r(l.x, u.x);
  vp_assert(vp_feq(r.size(), u.x - l.x) && vp_feq(r.center(), .5f * (l.x + u.x)), "range size/center");
  vp_reach("defs-end");
}

// xfmBounds: contains the image of every point of the box; every face is attained by a corner
template <bool A> static void t_xfmbounds()
{
  typedef vec_t<float, 3, A> V; typedef LinearSpace3<V> L; typedef AffineSpaceT<L> AF; typedef box_t<float, 3, A> B;
  auto rv = []() { float x = vp_nondet_f32(), y = vp_nondet_f32(), z = vp_nondet_f32(); return V(x, y, z); };
  V vx = rv(), vy = rv(), vz = rv(), o = rv(), lo = rv(), up = rv(), p = rv();
  vp_assume(lo.x <= up.x && lo.y <= up.y && lo.z <= up.z);
  vp_assume(lo.x <= p.x && p.x <= up.x && lo.y <= p.y && p.y <= up.y && lo.z <= p.z && p.z <= up.z);
  AF m(L(vx, vy, vz), o);
  B r = xfmBounds(m, B(lo, up));
  V q = xfmPoint(m, p);
  vp_assert(r.lower.x <= q.x, "xfmBounds lower.x <= image"); vp_assert(q.x <= r.upper.x, "image <= xfmBounds upper.x");
  vp_assert(r.lower.y <= q.y, "xfmBounds lower.y <= image"); vp_assert(q.y <= r.upper.y, "image <= xfmBounds upper.y");
  vp_assert(r.lower.z <= q.z, "xfmBounds lower.z <= image"); vp_assert(q.z <= r.upper.z, "image <= xfmBounds upper.z");
  // tightness: bounds are attained by corners
  bool hitl = false, hitu = false;
  for (int c = 0; c < 8; c++) {
    V cp((c & 4) ? up.x : lo.x, (c & 2) ? up.y : lo.y, (c & 1) ? up.z : lo.z);
    V ci = xfmPoint(m, cp);
    hitl = hitl | (ci.x == r.lower.x); hitu = hitu | (ci.x == r.upper.x);
  }
  vp_assert(hitl & hitu, "xfmBounds x-faces are attained by box corners");
  vp_reach("xfm-end");
}
VP_ENTRY vp_main_xfmbounds() { t_xfmbounds<false>(); }
VP_ENTRY vp_main_xfmbounds_a() { t_xfmbounds<true>(); }

// intersectRayBox: [lo,hi] covers exactly the ray parameters whose points lie in the box (and in tRange)
template <int N> static void t_raybox()
{
  typedef S<float, N> SS; typedef typename SS::V V;
  auto rv = []() { V v; for (int k = 0; k < N; k++) v[k] = vp_nondet_f32(); return v; };
  V org = rv(), dir = rv(), lo = rv(), up = rv();
  float t0 = vp_nondet_f32(), t1 = vp_nondet_f32(), t = vp_nondet_f32();
  FORK { vp_assume(lo[k] <= up[k]); vp_assume(dir[k] >= 1e-30f || dir[k] <= -1e-30f); }   // no axis-parallel component here (see vp_main_raybox_parallel)
  range_t<float> r = intersectRayBox(org, dir, box_t<float, N>(lo, up), range_t<float>(t0, t1));
  bool inbox = true; FORK { float x = org[k] + t * dir[k]; inbox = inbox & (lo[k] <= x) & (x <= up[k]); }
  bool inr = (t0 <= t) & (t <= t1);
  bool ininterval = (r.lower <= t) & (t <= r.upper);
  if (ininterval) {
    FORK { float x = org[k] + t * dir[k]; vp_assert(lo[k] <= x, "t in [lo,hi] => point above box.lower"); vp_assert(x <= up[k], "t in [lo,hi] => point below box.upper"); }
    vp_assert(t0 <= t, "t in [lo,hi] => t >= tRange.lower"); vp_assert(t <= t1, "t in [lo,hi] => t <= tRange.upper");
  }
  if (inbox & inr) { vp_assert(r.lower <= t, "point in box and t in tRange => lo <= t"); vp_assert(t <= r.upper, "point in box and t in tRange => t <= hi"); }
  vp_reach("ray-end");
}
VP_ENTRY vp_main_raybox2() { t_raybox<2>(); }
VP_ENTRY vp_main_raybox3() { t_raybox<3>(); }

#define SETE(T, N, name) VP_ENTRY vp_main_set_##name() { t_set<T, N>(); }
SETE(float, 1, f1) SETE(float, 2, f2) SETE(float, 3, f3) SETE(float, 4, f4) SETE(int, 1, i1) SETE(int, 2, i2) SETE(int, 3, i3) SETE(int, 4, i4)
VP_ENTRY vp_main_set_f3a() { t_set<float, 3, true>(); }
VP_ENTRY vp_main_inter_f2() { t_inter<float, 2>(); }
VP_ENTRY vp_main_inter_f3() { t_inter<float, 3>(); }
VP_ENTRY vp_main_inter_i2() { t_inter<int, 2>(); }
VP_ENTRY vp_main_inter_i3() { t_inter<int, 3>(); }
VP_ENTRY vp_main_inter_f3a() { t_inter<float, 3, true>(); }
