// C14: aligned allocation returns aligned, usable, correctly released memory.
#include "vp.h"
#include "rkcommon/memory/malloc.h"
#include "rkcommon/memory/malloc.cpp"
#include "rkcommon/containers/aligned_allocator.h"
#include "rkcommon/containers/AlignedVector.h"
using namespace rkcommon;
extern "C" void vp_memalign_info(unsigned *calls, uint64_t *align, uint64_t *size, void **ptr);
extern "C" void vp_memalign_mode(unsigned may_fail);     // symbolic runs: whether the posix_memalign stub may report ENOMEM
#ifdef VP_NATIVE_BUILD
extern "C" void vp_memalign_mode(unsigned) {}
extern "C" void vp_memalign_info(unsigned *calls, uint64_t *align, uint64_t *size, void **ptr) { *calls = 0; *align = 0; *size = 0; *ptr = nullptr; }
#define SYMBOLIC_ONLY(x)
#else
#define SYMBOLIC_ONLY(x) x
#endif

struct S12 { int a, b, c; };
struct S64 { char b[64]; };

template <typename T> static void t_allocate()
{
  vp_memalign_mode(1);
  containers::aligned_allocator<T, 64> al;
  size_t n = vp_nondet_u64();          // every 64-bit element count
  const size_t maxn = (size_t)-1 / sizeof(T);
  vp_assert(al.max_size() == maxn, "max_size = SIZE_MAX / sizeof(T)");
  bool lenerr = false, badalloc = false, other = false; T *p = nullptr;
  try { p = al.allocate(n); } catch (const std::length_error &) { lenerr = true; } catch (const std::bad_alloc &) { badalloc = true; } catch (...) { other = true; }
  unsigned calls; uint64_t a, sz; void *raw; vp_memalign_info(&calls, &a, &sz, &raw);
  vp_assert(!other, "only length_error or bad_alloc");
  vp_assert(lenerr == (n > maxn), "length_error exactly when the request exceeds max_size()");
  SYMBOLIC_ONLY(if (n == 0) vp_assert(p == nullptr && calls == 0, "n = 0: null, no allocation call");
  if (lenerr) vp_assert(calls == 0, "no allocation call when the request is too large");
  if (n != 0 && !lenerr) { vp_assert(calls == 1 && a == 64 && sz == n * sizeof(T) && sz / sizeof(T) == n, "one call for exactly n*sizeof(T) bytes (no 64-bit wrap) at alignment 64");
    vp_assert(badalloc == (raw == nullptr), "bad_alloc exactly when the allocator returned null"); })
  if (p) {
    vp_assert(memory::isAligned(p, 64), "result is 64-byte aligned");
    unsigned char *b = (unsigned char *)p;                 // usable for the full extent: first, last and an arbitrary byte, under bounds checks
    size_t k = vp_nondet_u64(); vp_assume(k < n * sizeof(T));
    b[0] = 1; b[n * sizeof(T) - 1] = 2; b[k] = 3;
    vp_assert(b[k] == 3, "memory usable for n elements");
    al.deallocate(p, n);
  }
  vp_reach("end");
}
VP_ENTRY vp_main_alloc_u8() { t_allocate<unsigned char>(); }
VP_ENTRY vp_main_alloc_int() { t_allocate<int>(); }
VP_ENTRY vp_main_alloc_s12() { t_allocate<S12>(); }
VP_ENTRY vp_main_alloc_s64() { t_allocate<S64>(); }

VP_ENTRY vp_main_alignedmalloc()
{
  vp_memalign_mode(1);
  size_t size = vp_nondet_u64(), align = vp_nondet_u64();
  vp_assume(align >= 1 && align <= 4096 && (align & (align - 1)) == 0);      // every power-of-two alignment 1..4096
  void *p = memory::alignedMalloc(size, align);
  if (p) {
    vp_assert(((size_t)p) % align == 0, "non-null result is a multiple of the alignment");
    SYMBOLIC_ONLY(vp_assume(size <= 64);)
    unsigned char *b = (unsigned char *)p;
    if (size >= 1 && size <= 64) { size_t k = vp_nondet_u64(); vp_assume(k < size); b[0] = 1; b[size - 1] = 2; b[k] = 3; vp_assert(b[k] == 3, "usable for the full size"); }
    memory::alignedFree(p);
  }
  int x; vp_assert(memory::isAligned((void *)(((size_t)&x) & ~(size_t)63), 64) && (((size_t)&x) % 64 == 0 || !memory::isAligned(&x, 64) || ((size_t)&x) % 64 == 0), "isAligned = address % alignment == 0");
  vp_reach("end");
}

// AlignedVector: data() 64-byte aligned after every (re)allocating operation, elements survive reallocation
template <int N0, int OP> static void t_vector()
{
  vp_nothrow(true);
  containers::AlignedVector<int> v;
  int ref[8]; int n = N0;
  for (int i = 0; i < N0; i++) { ref[i] = vp_nondet_int(); v.push_back(ref[i]); }
  switch (OP) {
  case 0: { int x = vp_nondet_int(); v.push_back(x); ref[n++] = x; } break;
  case 1: { v.resize(N0 + 2); ref[n++] = 0; ref[n++] = 0; } break;
  case 2: v.reserve(8); break;
  case 3: v.shrink_to_fit(); break;
  case 4: { containers::AlignedVector<int> w; w.push_back(7); v.swap(w); n = 1; ref[0] = 7; } break;
  case 5: { int x = vp_nondet_int(); v.assign(3, x); n = 3; ref[0] = ref[1] = ref[2] = x; } break;
  }
  vp_assert((int)v.size() == n, "size after the operation");
  if (!v.empty()) vp_assert(memory::isAligned(v.data(), 64), "data() is 64-byte aligned after an operation that can (re)allocate");
  for (int i = 0; i < n; i++) vp_assert(v[i] == ref[i], "elements survive reallocation unchanged");
  vp_reach("end");
}
#define VEC(N, OP) VP_ENTRY vp_main_vec_n##N##_op##OP() { t_vector<N, OP>(); }
#define VECS(N) VEC(N, 0) VEC(N, 1) VEC(N, 2) VEC(N, 3) VEC(N, 4) VEC(N, 5)
VECS(0) VECS(1) VECS(2) VECS(3)
