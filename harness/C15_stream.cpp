// C15: stream serialization round-trips and never leaves its buffer.
#include "vp.h"
#include <memory>
#include "rkcommon/networking/DataStreaming.h"
#include "rkcommon/networking/DataStreaming.cpp"
using namespace rkcommon;
using namespace rkcommon::networking;
using namespace rkcommon::utility;

#ifndef CAPMAX
#define CAPMAX 6
#endif

// --- FixedBufferWriter: one write/reserve from an arbitrary valid state (cap, cursor), full 64-bit size
template <bool RESERVE> static void t_fixed_step()
{
  size_t cap = vp_nondet_u64(); vp_assume(cap <= CAPMAX);
  size_t cur = vp_nondet_u64(); vp_assume(cur <= cap);
  FixedBufferWriter w;
  w.buffer = std::shared_ptr<FixedArray<uint8_t>>(new FixedArray<uint8_t>(cap));   // state constructed directly
  w.cursor = cur;
  uint8_t before[CAPMAX];
  for (size_t i = 0; i < cap; i++) { uint8_t b = vp_nondet_u8(); (*w.buffer)[i] = b; before[i] = b; }
  vp_assert(w.capacity() == cap, "capacity");
  vp_assert(w.available() == cap - cur, "available = capacity - written");
  size_t size = vp_nondet_u64();                       // every 64-bit size
  uint8_t src[CAPMAX];
  for (int i = 0; i < CAPMAX; i++) src[i] = vp_nondet_u8();
  bool fits = size <= cap - cur;                       // mathematical: cur + size <= cap
  bool threw = false, other = false;
  void *mem = nullptr;
  try {
    if (RESERVE) mem = w.reserve(size); else w.write(src, size);
  } catch (const std::runtime_error &) { threw = true; } catch (...) { other = true; }
  vp_assert(!other, "only runtime_error");
  vp_assert(threw == !fits, "accepted exactly when it fits in the remaining capacity");
  if (threw) {
    vp_assert(w.cursor == cur, "rejected request leaves cursor");
    for (size_t i = 0; i < cap; i++) vp_assert((*w.buffer)[i] == before[i], "rejected request writes nothing");
  } else {
    vp_assert(w.cursor == cur + size, "cursor advanced by size");
    vp_assert(w.available() == cap - cur - size, "available after");
    if (RESERVE) {
      vp_assert(size == 0 || mem == w.buffer->begin() + cur, "reserve returns the cursor position");
    } else {
      for (size_t i = 0; i < cap; i++)
        vp_assert((*w.buffer)[i] == ((i >= cur && i < cur + size) ? src[i - cur] : before[i]), "bytes land at [cursor,cursor+size) only");
    }
  }
  vp_reach("fixed-step-end");
}
VP_ENTRY vp_main_fixed_write() { t_fixed_step<false>(); }
VP_ENTRY vp_main_fixed_reserve() { t_fixed_step<true>(); }

// --- FixedBufferWriter: real constructor + short history + getWrittenView
VP_ENTRY vp_main_fixed_hist()
{
  size_t cap = vp_nondet_u64(); vp_assume(cap <= CAPMAX);
  FixedBufferWriter w(cap);
  uint8_t model[CAPMAX]; size_t mcur = 0;
  for (int s = 0; s < 2; s++) {
    uint8_t src[2] = {vp_nondet_u8(), vp_nondet_u8()};
    size_t size = vp_nondet_u64(); vp_assume(size <= 2);
    bool threw = false;
    try { w.write(src, size); } catch (const std::runtime_error &) { threw = true; }
    vp_assert(threw == (size > cap - mcur), "history: accepted exactly when it fits");
    if (!threw) { for (size_t i = 0; i < size; i++) model[mcur + i] = src[i]; mcur += size; }
    vp_assert(w.cursor == mcur && w.available() == cap - mcur && w.capacity() == cap, "history: cursor/available/capacity");
  }
  auto view = w.getWrittenView();
  vp_assert(view->size() == mcur, "written view size");
  for (size_t i = 0; i < mcur; i++) vp_assert((*view)[i] == model[i], "written view contents");
  vp_reach("fixed-hist-end");
}

// --- BufferReader: one read / getView from an arbitrary valid state
VP_ENTRY vp_main_reader_read()
{
  uint8_t data[CAPMAX];
  for (int i = 0; i < CAPMAX; i++) data[i] = vp_nondet_u8();
  size_t n = vp_nondet_u64(); vp_assume(n <= CAPMAX);
  size_t cur = vp_nondet_u64(); vp_assume(cur <= n);
  std::shared_ptr<AbstractArray<uint8_t>> buf(new ArrayView<uint8_t>(data, n));
  BufferReader r(buf);
  r.cursor = cur;
  vp_assert(r.end() == (cur == n), "end() exactly when everything is consumed");
  size_t size = vp_nondet_u64();
  uint8_t out[CAPMAX]; uint8_t outb[CAPMAX];
  for (int i = 0; i < CAPMAX; i++) { out[i] = vp_nondet_u8(); outb[i] = out[i]; }
  bool fits = size <= n - cur;
  bool threw = false;
  try { r.read(out, size); } catch (const std::runtime_error &) { threw = true; }
  vp_assert(threw == !fits, "read throws exactly when it extends past the data");
  if (threw) {
    vp_assert(r.cursor == cur, "failed read leaves cursor");
    for (int i = 0; i < CAPMAX; i++) vp_assert(out[i] == outb[i], "failed read touches nothing");
  } else {
    vp_assert(r.cursor == cur + size, "read advances cursor");
    for (size_t i = 0; i < CAPMAX; i++) vp_assert(out[i] == (i < size ? data[cur + i] : outb[i]), "read copies exactly those bytes");
    vp_assert(r.end() == (cur + size == n), "end after read");
  }
  vp_reach("reader-read-end");
}

template <typename T> static void t_reader_view()
{
  alignas(8) uint8_t data[CAPMAX + 2];
  for (int i = 0; i < CAPMAX + 2; i++) data[i] = vp_nondet_u8();
  size_t n = vp_nondet_u64(); vp_assume(n <= CAPMAX + 2);
  size_t cur = vp_nondet_u64(); vp_assume(cur <= n);
  std::shared_ptr<AbstractArray<uint8_t>> buf(new ArrayView<uint8_t>(data, n));
  BufferReader r(buf);
  r.cursor = cur;
  size_t count = vp_nondet_u64();                      // every 64-bit count
  bool fits = count <= (n - cur) / sizeof(T);
  bool threw = false;
  std::shared_ptr<ArrayView<T>> v;
  try { v = r.getView<T>(count); } catch (const std::runtime_error &) { threw = true; }
  vp_assert(threw == !fits, "getView throws exactly when it extends past the data");
  if (threw) vp_assert(r.cursor == cur, "failed getView leaves cursor");
  else {
    vp_assert(r.cursor == cur + count * sizeof(T), "getView advances cursor by the bytes viewed");
    vp_assert(count == 0 || (uint8_t *)v->data() == data + cur, "view aliases the buffer at the cursor");
  }
  vp_reach("reader-view-end");
}
VP_ENTRY vp_main_reader_view_u8() { t_reader_view<uint8_t>(); }
// getView<T> only compiles for T = uint8_t (it hands a uint8_t* to ArrayView<T>(T*,size_t)); recorded as not instantiable

// --- round trips through BufferWriter -> BufferReader (+ WriteSizeCalculator), and every truncation point
struct S16 { int a; float b; double c; };
VP_ENTRY vp_main_roundtrip_pod()
{
  int a = vp_nondet_int(); double d = vp_nondet_f64(); S16 s; s.a = vp_nondet_int(); s.b = vp_nondet_f32(); s.c = vp_nondet_f64();
  uint8_t c = vp_nondet_u8();
  vp_nothrow(true);
  BufferWriter w; WriteSizeCalculator calc;
  w << a << d << s << c;
  calc << a << d << s << c;
  vp_assert(w.buffer->size() == sizeof(int) + sizeof(double) + sizeof(S16) + 1, "bytes written");
  vp_assert(calc.writtenSize == w.buffer->size(), "WriteSizeCalculator predicts the byte count");
  BufferReader r(w.buffer);
  int a2; double d2; S16 s2; uint8_t c2;
  r >> a2 >> d2 >> s2;
  vp_assert(!r.end(), "not at end before the last value");
  r >> c2;
  vp_assert(a2 == a && __builtin_memcmp(&d2, &d, 8) == 0 && s2.a == s.a && __builtin_memcmp(&s2.b, &s.b, 4) == 0 && __builtin_memcmp(&s2.c, &s.c, 8) == 0 && c2 == c, "values round-trip");
  vp_assert(r.end(), "reader consumed exactly the bytes written");
  vp_nothrow(false);
  bool threw = false; uint8_t x;
  try { r >> x; } catch (const std::runtime_error &) { threw = true; }
  vp_assert(threw, "reading past the end throws");
  vp_reach("roundtrip-pod-end");
}

// (sizes are compile-time constants per entry, contents symbolic: these entries run in cbmc's path-exploration
//  mode because the shared_ptr/virtual-dispatch machinery of BufferWriter/BufferReader does not survive state merging)
template <int N> static void t_roundtrip_vec()
{
  vp_nothrow(true);
  std::vector<int> v;
  const size_t n = N;
  for (size_t i = 0; i < n; i++) v.push_back(vp_nondet_int());
  BufferWriter w; WriteSizeCalculator calc;
  w << v; calc << v;
  vp_assert(w.buffer->size() == 8 + 4 * n && calc.writtenSize == 8 + 4 * n, "vector bytes = size word + elements");
  BufferReader r(w.buffer);
  std::vector<int> v2;
  r >> v2;
  vp_assert(v2.size() == n, "vector size round-trips");
  for (size_t i = 0; i < n; i++) vp_assert(v2[i] == v[i], "vector elements round-trip");
  vp_assert(r.end(), "vector consumed exactly");
  vp_reach("roundtrip-vec-end");
}
VP_ENTRY vp_main_roundtrip_vec0() { t_roundtrip_vec<0>(); }
VP_ENTRY vp_main_roundtrip_vec1() { t_roundtrip_vec<1>(); }
VP_ENTRY vp_main_roundtrip_vec2() { t_roundtrip_vec<2>(); }
VP_ENTRY vp_main_roundtrip_vec3() { t_roundtrip_vec<3>(); }

template <int N> static void t_roundtrip_array()
{
  vp_nothrow(true);
  int src[3] = {vp_nondet_int(), vp_nondet_int(), vp_nondet_int()};
  const size_t n = N;
  ArrayView<int> av(src, n);
  BufferWriter w; WriteSizeCalculator calc;
  w << (const AbstractArray<int> &)av; calc << (const AbstractArray<int> &)av;
  vp_assert(w.buffer->size() == 8 + 4 * n && calc.writtenSize == 8 + 4 * n, "array bytes");
  BufferReader r(w.buffer);
  size_t sz; r >> sz;
  vp_assert(sz == n, "array size word");
  auto view = r.getView<uint8_t>(sz * sizeof(int));
  for (size_t i = 0; i < n; i++) { int e; __builtin_memcpy(&e, view->data() + 4 * i, 4); vp_assert(e == src[i], "array elements round-trip"); }
  vp_assert(r.end(), "array consumed exactly");
  vp_reach("roundtrip-array-end");
}
VP_ENTRY vp_main_roundtrip_array0() { t_roundtrip_array<0>(); }
VP_ENTRY vp_main_roundtrip_array1() { t_roundtrip_array<1>(); }
VP_ENTRY vp_main_roundtrip_array2() { t_roundtrip_array<2>(); }

// std::string payloads (libstdc++ string model): length concrete per entry, characters symbolic (every byte value, incl. NUL)
template <int N> static void t_roundtrip_string()
{
  vp_nothrow(true);
  std::string s;
  s.resize(N);
  for (int i = 0; i < N; i++) s[i] = (char)vp_nondet_u8();
  BufferWriter w; WriteSizeCalculator calc;
  w << s; calc << s;
  vp_assert(w.buffer->size() == 8 + (size_t)N && calc.writtenSize == 8 + (size_t)N, "string bytes = size word + characters");
  BufferReader r(w.buffer);
  std::string t;
  r >> t;
  vp_assert(t.size() == (size_t)N, "string length round-trips");
  for (int i = 0; i < N; i++) vp_assert(t[i] == s[i], "string characters round-trip (every byte value)");
  vp_assert(r.end(), "string consumed exactly");
  vp_reach("roundtrip-string-end"); vp_reach("end");
}
VP_ENTRY vp_main_roundtrip_str0() { t_roundtrip_string<0>(); }
VP_ENTRY vp_main_roundtrip_str1() { t_roundtrip_string<1>(); }
VP_ENTRY vp_main_roundtrip_str2() { t_roundtrip_string<2>(); }
VP_ENTRY vp_main_roundtrip_str3() { t_roundtrip_string<3>(); }
VP_ENTRY vp_main_roundtrip_cstr()
{
  vp_nothrow(true);
  char c[3] = {(char)vp_nondet_u8(), (char)vp_nondet_u8(), 0};
  vp_assume(c[0] != 0 && c[1] != 0);
  BufferWriter w;
  w << (const char *)c;
  vp_assert(w.buffer->size() == 8 + 2, "C string bytes = size word + strlen characters");
  BufferReader r(w.buffer);
  std::string t; r >> t;
  vp_assert(t.size() == 2 && t[0] == c[0] && t[1] == c[1] && r.end(), "C string reads back as a std::string");
  vp_reach("roundtrip-cstr-end");
}

// every truncation point of a written stream makes the typed read throw
VP_ENTRY vp_main_truncation()
{
  int a = vp_nondet_int(); uint8_t c = vp_nondet_u8();
  BufferWriter w;
  w << a << c;                         // 5 bytes
  size_t cut = vp_nondet_u64(); vp_assume(cut < 5);
  std::shared_ptr<AbstractArray<uint8_t>> tb(new ArrayView<uint8_t>(w.buffer->data(), cut));
  BufferReader r(tb);
  int a2 = 0; uint8_t c2 = 0; bool threw = false;
  try { r >> a2 >> c2; } catch (const std::runtime_error &) { threw = true; }
  vp_assert(threw, "truncated stream throws");
  if (cut >= 4) vp_assert(a2 == a, "complete prefix still read correctly");
  vp_reach("truncation-end");
}

#ifdef VP_PATH
// (path engine) strings across the small-string boundary and vectors of strings - every byte value
VP_ENTRY vp_main_roundtrip_str15() { t_roundtrip_string<15>(); }
VP_ENTRY vp_main_roundtrip_str16() { t_roundtrip_string<16>(); }
VP_ENTRY vp_main_roundtrip_str33() { t_roundtrip_string<33>(); }
VP_ENTRY vp_main_roundtrip_vecstr()
{
  vp_nothrow(true);
  std::vector<std::string> v;
  unsigned k = vp_pick(4);
  size_t bytes = 8;
  for (unsigned i = 0; i < k; i++) { unsigned len = vp_pick(2) ? 17 : vp_pick(3); std::string s; for (unsigned j = 0; j < len; j++) s.push_back((char)vp_nondet_u8()); v.push_back(s); bytes += 8 + len; }
  BufferWriter w; WriteSizeCalculator calc;
  w << v; calc << v;
  vp_assert(w.buffer->size() == bytes && calc.writtenSize == bytes, "vector<string> bytes = count word + per string (size word + characters)");
  BufferReader r(w.buffer);
  std::vector<std::string> t;
  t.push_back("stale");                         // the target's previous contents must not survive
  r >> t;
  vp_assert(t.size() == v.size(), "vector<string> length round-trips");
  for (unsigned i = 0; i < k && i < t.size(); i++) vp_assert(t[i] == v[i], "every string round-trips (every byte value, also across the small-string boundary)");
  vp_assert(r.end(), "consumed exactly");
  vp_reach("roundtrip-string-end"); vp_reach("end");
}
#endif
