// C16: XML reading is total and memory-safe on every byte string (bounded length); token spans on the supported subset.
#include "vp.h"
#include "rkcommon/xml/XML.h"
#include "rkcommon/xml/XML.cpp"
#include "rkcommon/os/FileName.cpp"
using namespace rkcommon;
#ifndef NBYTES
#define NBYTES 3
#endif

// parseXML on a buffer of exactly NBYTES symbolic bytes followed by NUL (every byte value; the heap block has exactly NBYTES+1 bytes,
// so any read outside the file's bytes is a bounds violation)
VP_ENTRY vp_main_parse_any()
{
  char *buf = new char[NBYTES + 1];
  for (int i = 0; i < NBYTES; i++) { buf[i] = (char)vp_nondet_u8(); }
  buf[NBYTES] = 0;
  bool other = false;
  try {
    xml::XMLDoc doc;
    xml::parseXML(doc, buf);
  } catch (const std::runtime_error &) {
  } catch (...) { other = true; }
  vp_assert(!other, "parseXML returns a document or throws std::runtime_error");
  delete[] buf;
  vp_reach("end");
}

// the same on inputs that exercise the quoted-string scanner: '<' name ' ' name '=' quote then symbolic bytes
VP_ENTRY vp_main_parse_prop()
{
  const int TAIL = NBYTES;
  char *buf = new char[6 + TAIL + 1];
  buf[0] = '<'; buf[1] = 'a'; buf[2] = ' '; buf[3] = 'b'; buf[4] = '=';
  buf[5] = vp_nondet_bool() ? '"' : '\'';
  for (int i = 0; i < TAIL; i++) buf[6 + i] = (char)vp_nondet_u8();
  buf[6 + TAIL] = 0;
  bool other = false;
  try {
    xml::XMLDoc doc;
    xml::parseXML(doc, buf);
  } catch (const std::runtime_error &) {
  } catch (...) { other = true; }
  vp_assert(!other, "parseXML returns a document or throws std::runtime_error");
  delete[] buf;
  vp_reach("end");
}
