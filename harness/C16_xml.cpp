// C16: XML reading is total and memory-safe on every byte string (bounded length) and faithful on the supported subset.
// Engine: vp/llpath.py (path-forking symbolic execution); the parser is driven through parseXML on a heap buffer that holds
// exactly the file's bytes plus the terminating NUL readXML appends, so any read outside the file's bytes is a bounds violation.
#include "vp.h"
#include "rkcommon/xml/XML.h"
#include "rkcommon/xml/XML.cpp"
#include "rkcommon/os/FileName.cpp"
using namespace rkcommon;
#ifndef NBYTES
#define NBYTES 3
#endif

static void total_on(const char *prefix, int tail)
{
  int pl = 0; while (prefix[pl]) pl++;
  char *buf = new char[pl + tail + 1];
  for (int i = 0; i < pl; i++) buf[i] = prefix[i];
  for (int i = 0; i < tail; i++) buf[pl + i] = (char)vp_nondet_u8();
  buf[pl + tail] = 0;
  bool other = false;
  try {
    xml::XMLDoc doc;
    xml::parseXML(doc, buf);
  } catch (const std::runtime_error &) {
  } catch (...) { other = true; }
  vp_assert(!other, "parseXML returns a document or throws std::runtime_error");
  delete[] buf;
  vp_reach("end");
}
// every byte string of length NBYTES
VP_ENTRY vp_main_parse_any() { total_on("", NBYTES); }
// the same behind prefixes that put the parser into each of its scanning loops
VP_ENTRY vp_main_parse_prop() { total_on(vp_nondet_bool() ? "<a b=\"" : "<a b='", NBYTES); }
VP_ENTRY vp_main_parse_open() { total_on("<a>", NBYTES); }
VP_ENTRY vp_main_parse_tag() { total_on("<a ", NBYTES); }
VP_ENTRY vp_main_parse_comment() { total_on("<!--", NBYTES); }
VP_ENTRY vp_main_parse_header() { total_on("<?xml", NBYTES); }
VP_ENTRY vp_main_parse_close() { total_on("<a>x</", NBYTES); }

// ---- faithfulness on generated documents (vp_pick: one path per generated document; the parser then runs on concrete text,
// the obligations compare the tree read back with the generating choices)
static const char *WS[3] = {"", " ", "\n\t"};
static char sym_where(bool (*ok)(unsigned char)) { unsigned char c = vp_nondet_u8(); vp_assume(ok(c)); return (char)c; }
static bool is_name0(unsigned char c) { return (c >= 'a' && c <= 'z') || (c >= 'A' && c <= 'Z') || c == '_'; }
static bool is_name1(unsigned char c) { return is_name0(c) || (c >= '0' && c <= '9') || c == '.'; }
static bool is_text(unsigned char c) { return c != 0 && c != '<' && !(c == ' ' || (c >= 9 && c <= 13)); }
static bool is_dq_value(unsigned char c) { return c != 0 && c != '"' && c != '\\'; }
static bool is_sq_value(unsigned char c) { return c != 0 && c != '\'' && c != '\\'; }
static xml::XMLDoc parse(std::string &text) { xml::XMLDoc doc; xml::parseXML(doc, &text[0]); return doc; }

// layout: [header] ws [comment ws] <n p="v" ws (/> | > ws [content ws] </n>) ws [comment ws]
VP_ENTRY vp_main_faithful_layout()
{
  const char *ws = WS[vp_pick(3)];
  unsigned header = vp_pick(3), c1 = vp_pick(2), c2 = vp_pick(2), body = vp_pick(4);   // body: 0 self-closing, 1 empty, 2 "t", 3 "t u"
  std::string t;
  if (header == 1) t += "<?xml?>"; else if (header == 2) t += "<?xml version=\"1.0\"?>";
  t += ws;
  if (c1) { t += "<!-- c -- > -->"; t += ws; }
  t += "<n p=\"v\""; t += ws;
  std::string content;
  if (body >= 2) content.push_back(sym_where(is_text));                                   // every non-blank byte except '<'
  if (body == 3) { content += " "; content.push_back(sym_where(is_text)); }
  if (body == 0) t += "/>"; else { t += ">"; t += ws; if (body >= 2) { t += content; t += ws; } t += "</n>"; }
  t += ws;
  if (c2) { t += "<!---->"; t += ws; }
  xml::XMLDoc doc = parse(t);
  vp_assert(doc.child.size() == 1, "one top-level node");
  if (doc.child.size() == 1) {
    const xml::Node &n = doc.child[0];
    vp_assert(n.name == "n", "node name");
    vp_assert(n.content == content, "content, trimmed");
    vp_assert(n.child.empty() && n.properties.size() == 1 && n.getProp("p") == "v", "property and no children");
  }
  vp_reach("end");
}

// names and properties: <name [p=..] [p|q=..] /> with both quote styles, whitespace around '=', escaped quote and '<' inside a value
VP_ENTRY vp_main_faithful_props()
{
  const char *ws = WS[vp_pick(3)];
  std::string name(1, sym_where(is_name0)); if (vp_pick(2)) name.push_back(sym_where(is_name1));   // every legal name of 1-2 characters
  unsigned np = vp_pick(3);
  std::string pn[2], pv[2];
  std::string t = "<" + name;
  for (unsigned i = 0; i < np; i++) {
    pn[i] = (i == 1 && vp_pick(2)) ? "q" : "p";
    bool dq = vp_pick(2);
    const char *qt = dq ? "\"" : "'";
    unsigned vk = vp_pick(3);
    if (vk == 0) pv[i] = "";                                                                  // an empty value is a value
    else if (vk == 1) pv[i] = std::string(1, sym_where(dq ? is_dq_value : is_sq_value));      // every byte that does not end the value
    else { pv[i] = "\\"; pv[i] += qt; }                                                      // an escaped quote stays inside the value
    t += " "; t += pn[i]; t += ws; t += "="; t += ws; t += qt; t += pv[i]; t += qt;
  }
  t += ws; t += "/>";
  xml::XMLDoc doc = parse(t);
  vp_assert(doc.child.size() == 1, "one top-level node");
  if (doc.child.size() == 1) {
    const xml::Node &n = doc.child[0];
    vp_assert(n.name == name, "node name (letters, digits, '_' and '.' after the first character)");
    size_t expect_props = (np == 2 && pn[0] == pn[1]) ? 1 : np;
    vp_assert(n.properties.size() == expect_props, "one property per distinct name");
    for (unsigned i = 0; i < np; i++) { bool last = !(i == 0 && np == 2 && pn[1] == pn[0]); if (last) vp_assert(n.hasProp(pn[i]) && n.getProp(pn[i]) == pv[i], "property value is the text between the quotes"); }
    vp_assert(!n.hasProp("z") && n.getProp("z", "dflt") == "dflt", "absent property: fallback");
  }
  vp_reach("end");
}

// <r> ws (comment? child ws)* </r> with 0..2 children, each self-closing, empty, with content, or with a grandchild carrying a property
VP_ENTRY vp_main_faithful_tree()
{
  const char *ws = WS[vp_pick(3)];
  unsigned comments = vp_pick(2), nc = vp_pick(3);
  std::string names[2]; unsigned kind[2];
  std::string t = "<r>"; t += ws;
  for (unsigned i = 0; i < nc; i++) {
    names[i] = std::string(1, "xy"[vp_pick(2)]);
    kind[i] = vp_pick(4);
    if (comments) { t += "<!-- k -->"; t += ws; }
    if (kind[i] == 0) t += "<" + names[i] + "/>";
    else if (kind[i] == 1) t += "<" + names[i] + "></" + names[i] + ">";
    else if (kind[i] == 2) t += "<" + names[i] + "> c </" + names[i] + ">";
    else t += "<" + names[i] + "><g k='1'/></" + names[i] + ">";
    t += ws;
  }
  t += "</r>";
  xml::XMLDoc doc = parse(t);
  vp_assert(doc.child.size() == 1 && doc.child[0].name == "r", "root");
  if (doc.child.size() == 1) {
    const xml::Node &r = doc.child[0];
    vp_assert(r.child.size() == nc, "children: same number");
    for (unsigned i = 0; i < nc && i < r.child.size(); i++) {
      vp_assert(r.child[i].name == names[i], "children in document order");
      vp_assert(r.child[i].content == (kind[i] == 2 ? "c" : ""), "child content trimmed");
      vp_assert(r.child[i].child.size() == (kind[i] == 3 ? 1u : 0u), "grandchildren");
      if (kind[i] == 3 && r.child[i].child.size() == 1) vp_assert(r.child[i].child[0].name == "g" && r.child[i].child[0].getProp("k") == "1", "grandchild name and property");
    }
  }
  vp_reach("end");
}

// a mismatched close tag / junk is an error, not a crash
VP_ENTRY vp_main_reject()
{
  const char *bad[6] = {"<a></b>", "<a", "<a b>", "<a b=>", "<1/>", "<a>x<b/>y</a>"};
  std::string s = bad[vp_pick(6)];
  bool threw = false;
  try { xml::XMLDoc doc; xml::parseXML(doc, &s[0]); } catch (const std::runtime_error &) { threw = true; }
  vp_assert(threw, "malformed documents are reported by std::runtime_error");
  vp_reach("end");
}
