// C14, TBB configuration: alignedMalloc / alignedFree / aligned_allocator / AlignedVector compiled with -DRKCOMMON_TASKING_TBB.
// tbbmalloc is a closed library: in the symbolic run scalable_aligned_malloc / scalable_malloc / scalable_*free are engine
// models of their documented contracts (vp/llpath.py: scalable_aligned_malloc -> null for size 0 or a non-power-of-two
// alignment, otherwise a block aligned to exactly the requested alignment; scalable_malloc -> a block with no more than
// malloc's natural 16-byte alignment, chosen adversarially).  The native replay links the real libtbbmalloc.
#include "vp.h"
#include "rkcommon/memory/malloc.h"
#include "rkcommon/memory/malloc.cpp"
#include "rkcommon/containers/aligned_allocator.h"
#include "rkcommon/containers/AlignedVector.h"
using namespace rkcommon;
static const size_t SIZES[] = {0, 1, 3, 16, 64, 100, 128, 1000, 1024, 2048, 3072, 4096, 8192, 12288};

VP_ENTRY vp_main_tbb_alignedmalloc()
{
  vp_nothrow(true);
  size_t align = (size_t)1 << vp_pick(13);                  // every power-of-two alignment 1..4096
  size_t size = SIZES[vp_pick(sizeof(SIZES) / sizeof(SIZES[0]))];
  void *live[3];                                            // several live blocks: one can be aligned by luck
  for (int i = 0; i < 3; i++) {
    void *p = live[i] = memory::alignedMalloc(size, align);
    if (!p) continue;
    vp_assert(((size_t)p) % align == 0, "non-null result is a multiple of the alignment");
    vp_assert(memory::isAligned(p, align), "isAligned agrees");
    if (size) { unsigned char *b = (unsigned char *)p; b[0] = 1; b[size - 1] = 2; b[size / 2] = 3; vp_assert(b[size / 2] == 3, "usable for the full size"); }
  }
  for (int i = 0; i < 3; i++) if (live[i]) memory::alignedFree(live[i]);
  vp_reach("end");
}

VP_ENTRY vp_main_tbb_vector()
{
  vp_nothrow(true);
  containers::AlignedVector<int> v;
  int ref[6];
  for (int i = 0; i < 6; i++) {
    ref[i] = vp_nondet_int(); v.push_back(ref[i]);
    vp_assert(memory::isAligned(v.data(), 64), "data() is 64-byte aligned after every push_back");
  }
  v.resize(300);                                            // > 1024 bytes: a different size class of the allocator
  vp_assert(memory::isAligned(v.data(), 64), "data() is 64-byte aligned after a large resize");
  for (int i = 0; i < 6; i++) vp_assert(v[i] == ref[i], "elements survive reallocation unchanged");
  v.shrink_to_fit(); v.resize(2); v.shrink_to_fit();
  vp_assert(memory::isAligned(v.data(), 64) && v[1] == ref[1], "aligned and intact after shrinking");
  vp_reach("end");
}
