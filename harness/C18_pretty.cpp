// C18 (numbers): prettyNumber / prettyDouble print a mantissa between 1 and 1000 with the SI suffix that multiplies it back.
// snprintf is captured: the engine calls vp_on_snprintf(fmt, mantissa, suffix) with the real arguments.
#include "vp.h"
#include <cmath>
#include <string>
#include "rkcommon/common.h"
#include "rkcommon/common.cpp"
#ifdef VP_NATIVE_BUILD
// only to link the native replay build (common.cpp refers to LibraryRepository; never called by these harnesses)
namespace rkcommon { LibraryRepository *LibraryRepository::getInstance() { return nullptr; }
  void LibraryRepository::add(const void *, const std::string &, const std::vector<int> &) {} void LibraryRepository::remove(const std::string &) {}
  void *LibraryRepository::getSymbol(const std::string &) const { return nullptr; } }
#endif
static double g_val;
static bool g_small;   // |val| < 1: sub-unit suffixes
static double scale_of(int c)
{
  switch (c) { case 'E': return 1e18; case 'P': return 1e15; case 'T': return 1e12; case 'G': return 1e9; case 'M': return 1e6; case 'k': return 1e3;
               case 'm': return 1e-3; case 'u': return 1e-6; case 'n': return 1e-9; case 'p': return 1e-12; case 'f': return 1e-15; }
  return 0.0;
}
extern "C" void vp_on_snprintf(const char *fmt, double mant, int suffix)
{
  double am = mant < 0 ? -mant : mant;
  double sc = scale_of(suffix);
  vp_assert(sc != 0.0, "suffix is an SI prefix");
  vp_assert(am >= 0.999 && am <= 1000.001, "mantissa between 1 and 1000");
  double back = mant * sc, d = back - g_val; if (d < 0) d = -d;
  double av = g_val < 0 ? -g_val : g_val;
  vp_assert(d <= av * 1e-6, "mantissa times the suffix scale gives the input back (within float-constant precision)");
  vp_reach("end");
  vp_assume(false);          // formatting itself (printed digits, std::string construction) is outside the claim
}
extern "C" void vp_on_snprintf1(const char *fmt, double value)
{
  double av = g_val < 0 ? -g_val : g_val;
  vp_assert(av >= 0.999 && av < 1000.001, "plain format only for magnitudes in [1,1000)");
  vp_reach("end");
  vp_assume(false);
}
VP_ENTRY vp_main_pretty_double()
{
  double v = vp_nondet_f64();
  double av = v < 0 ? -v : v;
  vp_assume(av >= 1e-15 && av <= 1e21);          // all magnitudes 1e-15..1e21, both signs
  g_val = v;
  rkcommon::prettyDouble(v);
}
VP_ENTRY vp_main_pretty_number()
{
  uint64_t s = vp_nondet_u64();
  vp_assume(s >= 1000);                          // below 1000 the count is printed exactly ("%zu")
  g_val = (double)s;
  rkcommon::prettyNumber(s);
}
