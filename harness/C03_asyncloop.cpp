// C03: AsyncLoop honours its start/stop/destroy protocol on every interleaving (explored at the RKCOMMON_VERIF scheduling points).
// The loop ("background") thread's real code runs as the main flow (vp_run_thread executes std::thread's _State_impl::_M_run);
// the controller's real start()/stop()/~AsyncLoop() are injected, run to completion, at the loop thread's scheduling points
// A (after the running-flag check, before insideLoopBody is published), B (after the body), before the thread first runs,
// and while the loop thread is blocked in condition_variable::wait.  Schedules in which the controller is itself suspended between
// its own flag writes and notifies (points D..G) while the loop thread runs are NOT explored (see DESIGN).
#include "vp.h"
#include "rkcommon/tasking/AsyncLoop.h"
using namespace rkcommon::tasking;
#ifndef NOPS
#define NOPS 3
#endif
#ifndef NBODY
#define NBODY 2
#endif
#ifdef VP_NATIVE_BUILD
// native replay: the real threads with forced / randomised pauses at the scheduling points (the solver's counterexample names
// the point at which the controller's operation is injected; here the loop thread is parked at point A while the controller acts)
#include <atomic>
#include <chrono>
#include <thread>
#include <cstdlib>
static std::atomic<int> n_stopped{1}, n_bodies{0}, n_bad{0}, n_park{0};
extern "C" void vp_point(const char *name)
{
  if (name[0] == 'A' && n_park.load() > 0) { n_park--; std::this_thread::sleep_for(std::chrono::milliseconds(20)); }
  else if ((name[0] == 'F' || name[0] == 'D') && (rand() & 1)) std::this_thread::sleep_for(std::chrono::milliseconds(2));
}
VP_ENTRY vp_main_thread_launch()
{
  for (int it = 0; it < 40; it++) {
    n_stopped = 1; n_bodies = 0;
    {
      AsyncLoop loop([&]() { if (n_stopped.load()) n_bad++; n_bodies++; }, AsyncLoop::THREAD);
      n_stopped = 0; loop.start();
      auto t0 = std::chrono::steady_clock::now();
      while (n_bodies.load() == 0 && std::chrono::steady_clock::now() - t0 < std::chrono::seconds(2)) std::this_thread::yield();
      vp_assert(n_bodies.load() > 0, "P2: after start() returned the loop thread is not left parked without a wake-up (lost wake-up)");
      n_park = 3;                      // park the loop thread in the window after its running-flag check
      std::this_thread::sleep_for(std::chrono::milliseconds(5));
      loop.stop(); n_stopped = 1;
      std::this_thread::sleep_for(std::chrono::milliseconds(40));
      vp_assert(n_bad.load() == 0, "P1: no body invocation begins after stop() returned (until start() is next called)");
      n_stopped = 0; loop.start(); std::this_thread::sleep_for(std::chrono::milliseconds(2)); loop.stop(); n_stopped = 1;
    }                                  // destructor must return (join)
  }
}
VP_ENTRY vp_main_thread_launch_started() { vp_main_thread_launch(); }
#else
extern "C" void vp_run_thread(void);
extern "C" unsigned vp_cv_pending(void);
extern "C" unsigned vp_in_join(void);

static AsyncLoop *g_loop;
static int g_ops_left, g_body_runs;
static bool g_in_controller, g_stopped, g_destroyed, g_start_returned_running;

static void controller_step()
{
  g_in_controller = true;
  unsigned op = vp_choose(3);
  g_ops_left--;
  if (op == 0) { g_stopped = false; g_loop->start(); g_start_returned_running = true; }
  else if (op == 1) { g_loop->stop(); g_stopped = true; g_start_returned_running = false; }
  else { g_destroyed = true; g_start_returned_running = false; AsyncLoop *l = g_loop; g_loop = nullptr; g_ops_left = 0; delete l; }
  g_in_controller = false;
}
static void inject()
{
  if (g_ops_left > 0 && !g_destroyed && vp_nondet_bool()) controller_step();      // at most one complete controller operation per scheduling point
}
extern "C" void vp_point(const char *name)
{
  char c = name[0];
  if (!g_in_controller && (c == 'A' || c == 'B')) inject();
}
// the loop thread is blocked in wait(): only the controller can make progress
extern "C" void vp_cv_block(void)
{
  while (!vp_cv_pending()) {
    if (g_ops_left == 0 || g_destroyed) {
      // parked for good: legitimate only if nothing is pending for it
      vp_assert(!g_start_returned_running, "P2: after start() returned the loop thread is not left parked without a wake-up (lost wake-up)");
      vp_assert(!g_destroyed, "P3: after the destructor's notify the loop thread is not left parked (join would never return)");
      vp_assume(false);
    }
    controller_step();
  }
}

template <bool PRESTART> static void t_thread_launch()
{
  vp_nothrow(true);
  g_ops_left = NOPS; g_body_runs = 0; g_stopped = true; g_destroyed = false;
  g_loop = new AsyncLoop([&]() {
    vp_assert(!g_stopped, "P1: no body invocation begins after stop() returned (until start() is next called)");
    g_body_runs++;
    if (g_body_runs > NBODY) vp_assume(false);       // unwinding assumption: the loop thread performs at most NBODY body invocations
  }, AsyncLoop::THREAD);
  if (PRESTART) { g_stopped = false; g_loop->start(); g_start_returned_running = true; }   // history prefix: start() already returned
  inject();                                          // the controller may act before the loop thread gets to run at all
  vp_run_thread();
  vp_assert(g_destroyed, "the loop thread only exits after the AsyncLoop was destroyed");
  vp_assert(vp_in_join() != 0, "the destructor waits for its thread (join) when it owns it");
  vp_reach("end");
}
VP_ENTRY vp_main_thread_launch() { t_thread_launch<false>(); }
VP_ENTRY vp_main_thread_launch_started() { t_thread_launch<true>(); }
#endif
