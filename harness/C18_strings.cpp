// C18 (strings): splitting, prefixes, paths and argument lists satisfy their decomposition laws.
// String lengths are compile-time constants per entry, characters symbolic over a small alphabet chosen per function.
#include "vp.h"
#include <string>
#include <vector>
#include "rkcommon/utility/StringManip.h"
#include "rkcommon/utility/PseudoURL.h"
#include "rkcommon/utility/PseudoURL.cpp"
#include "rkcommon/os/FileName.h"
#include "rkcommon/os/FileName.cpp"
#include "rkcommon/common.h"
#include "rkcommon/common.cpp"
#include "rkcommon/utility/ArgumentList.h"
#ifdef VP_NATIVE_BUILD
// only to link the native replay build (common.cpp refers to LibraryRepository; never called by these harnesses)
namespace rkcommon { LibraryRepository *LibraryRepository::getInstance() { return nullptr; }
  void LibraryRepository::add(const void *, const std::string &, const std::vector<int> &) {} void LibraryRepository::remove(const std::string &) {}
  void *LibraryRepository::getSymbol(const std::string &) const { return nullptr; } }
#endif
using namespace rkcommon;

// under the path engine (VP_PATH) the characters are arbitrary non-NUL bytes; under cbmc a small alphabet
template <int N> static std::string sym(const char *alphabet, int na)
{
  std::string s; s.resize(N);
#ifdef VP_PATH
  for (int i = 0; i < N; i++) { char c = (char)vp_nondet_u8(); vp_assume(c != 0); s[i] = c; }
#else
  for (int i = 0; i < N; i++) { unsigned k = vp_choose(na); s[i] = alphabet[k]; }
#endif
  return s;
}
template <int N> static std::string symab(const char *alphabet, int na)
{
  std::string s; s.resize(N);
  for (int i = 0; i < N; i++) { unsigned k = vp_choose(na); s[i] = alphabet[k]; }
  return s;
}

// tokens of s w.r.t. delimiter d = maximal runs of non-delimiter characters, in order (reference)
static int ref_tokens(const std::string &s, char d, int start[8], int len[8])
{
  int n = 0; int i = 0; int L = (int)s.size();
  while (i < L) { if (s[i] == d) { i++; continue; } int b = i; while (i < L && s[i] != d) i++; start[n] = b; len[n] = i - b; n++; }
  return n;
}
template <int N> static void t_tokenize()
{
  vp_nothrow(true);
  std::string s = sym<N>(":ab", 3);
  std::vector<std::string> tok;
  utility::tokenize(s, ':', tok);
  int st[8], ln[8]; int n = ref_tokens(s, ':', st, ln);
  vp_assert((int)tok.size() == n, "tokenize keeps every non-empty token, including one-character tokens, and no empty ones");
  for (int k = 0; k < n && k < (int)tok.size(); k++) {
    vp_assert((int)tok[k].size() == ln[k], "token k is the k-th maximal non-delimiter run");
    for (int j = 0; j < ln[k] && j < (int)tok[k].size(); j++) vp_assert(tok[k][j] == s[st[k] + j], "token characters in order");
  }
  vp_reach("end");
}
template <int N> static void t_split()
{
  vp_nothrow(true);
  std::string s = sym<N>(",ab", 3);
  std::vector<std::string> tok = utility::split(s, std::string(","));
  int st[8], ln[8]; int n = ref_tokens(s, ',', st, ln);
  vp_assert((int)tok.size() == n, "split keeps every non-empty token, including one-character tokens");
  for (int k = 0; k < n && k < (int)tok.size(); k++) {
    vp_assert((int)tok[k].size() == ln[k], "split token k is the k-th maximal non-delimiter run");
    for (int j = 0; j < ln[k] && j < (int)tok[k].size(); j++) vp_assert(tok[k][j] == s[st[k] + j], "split token characters in order");
  }
  vp_reach("end");
}
#define LENS(M) M(0) M(1) M(2) M(3) M(4) M(5) M(6) M(7)
#define TOK_E(N) VP_ENTRY vp_main_tokenize_##N() { t_tokenize<N>(); } VP_ENTRY vp_main_split_##N() { t_split<N>(); }
LENS(TOK_E)

template <int N1, int N2> static void t_prefix()
{
  vp_nothrow(true);
  std::string a = sym<N1>("ab", 2), b = sym<N2>("ab", 2);
  int k = 0; while (k < N1 && k < N2 && a[k] == b[k]) k++;
  std::string m = utility::longestBeginningMatch(a, b);
  vp_assert((int)m.size() == k, "longestBeginningMatch has the length of the longest common prefix");
  for (int i = 0; i < k && i < (int)m.size(); i++) vp_assert(m[i] == a[i], "longestBeginningMatch is that prefix");
  vp_assert(utility::beginsWith(a, b) == (k == N2), "beginsWith is the prefix relation");
  vp_reach("end");
}
#define PFX(A, B) VP_ENTRY vp_main_prefix_##A##_##B() { t_prefix<A, B>(); }
PFX(0, 0) PFX(0, 2) PFX(2, 0) PFX(1, 2) PFX(2, 1) PFX(2, 2) PFX(3, 2) PFX(2, 3) PFX(3, 3)

template <int N> static void t_case()
{
  vp_nothrow(true);
  std::string s; s.resize(N); for (int i = 0; i < N; i++) s[i] = (char)vp_nondet_u8();
  std::string lo = utility::lowerCase(s), up = utility::upperCase(s);
  vp_assert((int)lo.size() == N && (int)up.size() == N, "case mapping keeps the length");
  for (int i = 0; i < N; i++) { unsigned char c = s[i];
    vp_assert((unsigned char)lo[i] == ((c >= 'A' && c <= 'Z') ? c + 32 : c), "lowerCase: ASCII letters mapped, everything else unchanged");
    vp_assert((unsigned char)up[i] == ((c >= 'a' && c <= 'z') ? c - 32 : c), "upperCase: ASCII letters mapped, everything else unchanged"); }
  vp_reach("end");
}
VP_ENTRY vp_main_case_2() { t_case<2>(); }

// FileName: path()+base() == str(); base() == name() + ("." + ext() if there is one); ext/name/dropExt look only at the last component
template <int N> static void t_filename()
{
  vp_nothrow(true);
  std::string s = sym<N>("/.a", 3);
  FileName f(s);
  std::string full = f.str();
  // normalisation: trailing separators removed
  vp_assert(full.empty() || full[full.size() - 1] != '/', "normalised name has no trailing separator");
  std::string p = f.path(), b = f.base(), nm = f.name(), ex = f.ext();
  vp_assert(p + b == full, "path() + base() == str()");
  vp_assert(b.find('/') == std::string::npos, "base() is the last component");
  size_t dot = b.rfind('.');
  if (dot == std::string::npos) { vp_assert(ex.empty(), "no dot in the last component: no extension"); vp_assert(nm == b, "no dot: name() == base()"); vp_assert(f.dropExt().str() == full, "no dot: dropExt changes nothing"); }
  else { vp_assert(ex == b.substr(dot + 1), "ext() is taken from the last component only"); vp_assert(nm == b.substr(0, dot), "name() is the last component without its extension");
         vp_assert(nm + "." + ex == b, "base() == name() + '.' + ext()"); vp_assert(f.dropExt().str() == FileName(p + nm).str(), "dropExt removes only the last component's extension (result normalised like every FileName)"); }
  vp_reach("end");
}
#define FN_E(N) VP_ENTRY vp_main_filename_##N() { t_filename<N>(); }
FN_E(1) FN_E(2) FN_E(3) FN_E(4) FN_E(5) FN_E(6)

VP_ENTRY vp_main_filename_compose()
{
  vp_nothrow(true);
  std::string a = symab<2>("a.", 2), e = symab<1>("bc", 2);
  FileName f(a);
  FileName g = f.addExt("." + e);
  vp_assert(g.str() == a + "." + e, "addExt appends");
  FileName d("d"), x("x");
  vp_assert((d + x).str() == "d/x", "operator+ joins with the separator");
  vp_assert((FileName("") + x).str() == "x", "operator+ with an empty left side");
  vp_reach("end");
}

// removeArgs on a raw argument vector: keeps exactly the other arguments in order
VP_ENTRY vp_main_removeargs()
{
  const char *names[5] = {"0", "1", "2", "3", "4"};
  const char *av_store[5]; const char **av = av_store;
  int ac = (int)vp_choose(6);
  for (int i = 0; i < 5; i++) av_store[i] = names[i];
  int where = (int)vp_choose(6), how = (int)vp_choose(6);
  vp_assume(where <= ac && how <= ac - where);
  int ac0 = ac;
  removeArgs(ac, av, where, how);
  vp_assert(ac == ac0 - how, "removeArgs shrinks the count by howMany");
  for (int i = 0; i < ac; i++) vp_assert(av[i] == names[i < where ? i : i + how], "removeArgs keeps exactly the unconsumed arguments in their original order");
  vp_reach("end");
}

#ifdef VP_PATH
// PseudoURL: a URL assembled from a type, a file name and two name=value pairs parses back into exactly those parts, the last duplicate winning
static std::string letters(int n, const char *alphabet, int na) { std::string s; for (int i = 0; i < n; i++) s.push_back(alphabet[vp_choose(na)]); return s; }
VP_ENTRY vp_main_url()
{
  int tl = (int)vp_choose(3), fl = 1 + (int)vp_choose(2), v1l = (int)vp_choose(2), v2l = (int)vp_choose(2);
  bool has_type = vp_nondet_bool(), eq1 = vp_nondet_bool();
  std::string type = has_type ? letters(tl, "ab", 2) : std::string(), file = letters(fl, "f./", 3);
  std::string n1 = letters(1, "xy", 2), n2 = letters(1, "xy", 2), v1 = letters(v1l, "vw=", 3), v2 = letters(v2l, "vw", 2);
  vp_assume(eq1 || v1.empty());
  std::string url = (has_type ? type + "://" : std::string()) + file + ":" + n1 + (eq1 ? "=" + v1 : std::string()) + ":" + n2 + "=" + v2;
  vp_assume(has_type || file.find("://") == std::string::npos);
  utility::PseudoURL u(url);
  vp_assert(u.getType() == type, "PseudoURL: the type is what precedes '://' (empty when there is none)");
  vp_assert(u.getFileName() == file, "PseudoURL: the file name is the first colon-separated component after the type");
  vp_assert(u.hasParam(n1) && u.hasParam(n2), "PseudoURL: every name=value pair is a parameter (also 1-character ones)");
  vp_assert(u.getValue(n2) == v2, "PseudoURL: getValue returns the value of the last pair with that name");
  if (n1 != n2) vp_assert(u.getValue(n1) == v1, "PseudoURL: getValue returns the pair's value (everything after the first '=')");
  bool threw = false;
  try { u.getValue("q"); } catch (const std::runtime_error &) { threw = true; }
  vp_assert(threw && !u.hasParam("q"), "PseudoURL: an unspecified parameter is reported by exception");
  vp_reach("end");
}

// ArgumentList / parseAndRemove: exactly the unconsumed arguments remain, in their original order
struct SymParser : utility::ArgumentsParser {
  int want[6];
  int tryConsume(utility::ArgumentList &l, int id) override { int orig = l[id][0] - '0'; int w = want[orig]; int left = l.size() - id; return w < left ? w : left; }
};
VP_ENTRY vp_main_arglist()
{
  const char *names[6] = {"prog", "1", "2", "3", "4", "5"};
  int ac = 1 + (int)vp_choose(5);
  utility::ArgumentList l(ac, names);
  vp_assert(l.size() == ac - 1 && l.empty() == (ac == 1), "ArgumentList drops av[0] and keeps the rest");
  SymParser p; for (int i = 0; i < 6; i++) p.want[i] = (int)vp_choose(3);
  // reference: walk the original indices
  int keep[6], nk = 0; for (int i = 1; i < ac;) { int w = p.want[i]; int left = ac - i; int c = w < left ? w : left; if (c == 0) { keep[nk++] = i; i++; } else i += c; }
  p.parseAndRemove(l);
  vp_assert(l.size() == nk, "parseAndRemove removes exactly the consumed arguments");
  for (int k = 0; k < nk && k < l.size(); k++) vp_assert(l[k] == names[keep[k]], "the unconsumed arguments stay in their original order");
  vp_reach("end");
}
#endif
