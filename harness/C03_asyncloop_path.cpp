// C03 (path engine): AsyncLoop with the real std::thread / std::mutex / std::condition_variable code, executed by vp/llpath.py's
// thread model; every schedule with <= PREEMPT preemptions.  vp_point (RKCOMMON_VERIF scheduling hooks) is a no-op here.
#include "vp.h"
#include <sched.h>
#include <atomic>
#include "rkcommon/tasking/AsyncLoop.h"
#include "rkcommon/tasking/detail/tasking_system_init.cpp"
using namespace rkcommon::tasking;
#ifndef PREEMPT
#define PREEMPT 2
#endif
#ifdef VP_NATIVE_BUILD
#include <unistd.h>
#include <string.h>
#define GIVE_TIME() usleep(200)
#define NATIVE_PAUSE() usleep(1500)
#define ROUNDS 2000
// native replay: the loop thread dawdles at its scheduling points A (running flag seen), B (after a body) and H (wait predicate
// evaluated), which widens exactly the windows the explored schedules use (the schedule itself cannot be forced natively)
static std::atomic<int> g_dawdle{0};
extern "C" void vp_point(const char *name) { if ((name[0] == 'A' || name[0] == 'H' || name[0] == 'B') && g_dawdle++ < 40) usleep(3000); }
#else
#define GIVE_TIME() sched_yield()
#define NATIVE_PAUSE() do { } while (0)
#define ROUNDS 40
#endif
static std::atomic<int> g_body, g_in_body;

// after start() returns the body runs again within bounded time (no lost wake-up); after stop() returns no invocation is in
// progress or begins; stop/start in either order and repeatedly; destruction joins
VP_ENTRY vp_main_loop_thread()
{
  vp_nothrow(true);
  g_body = 0; g_in_body = 0;
  {
    AsyncLoop loop([&]() { g_in_body = 1; g_body++; g_in_body = 0; }, AsyncLoop::LaunchMethod::THREAD);
    vp_sched(PREEMPT);
    unsigned first = vp_pick(2);                 // 0: start at once; 1: a stop() on the never-started loop first
    if (first) loop.stop();
    NATIVE_PAUSE();
    loop.start();
    for (int i = 0; i < ROUNDS && g_body.load() == 0; i++) GIVE_TIME();
    vp_assert(g_body.load() > 0, "after start() returns the body is executed within bounded time (no lost wake-up)");
    loop.stop();
    vp_assert(g_in_body.load() == 0, "after stop() returns no body invocation is in progress");
    int b = g_body.load();
    for (int i = 0; i < 6; i++) GIVE_TIME();
    vp_assert(g_body.load() == b, "after stop() returns no body invocation begins");
    if (vp_pick(2)) {                            // restart
      loop.start();
      for (int i = 0; i < ROUNDS && g_body.load() == b; i++) GIVE_TIME();
      vp_assert(g_body.load() > b, "start() after stop(): the body is executed again within bounded time");
    }
  }                                              // destructor: stops and joins
  int e = g_body.load();
  for (int i = 0; i < 4; i++) GIVE_TIME();
  vp_assert(g_body.load() == e && g_in_body.load() == 0, "after destruction the body never runs again");
  vp_reach("end");
}
