// C06: linear / affine / quaternion algebra (REAL mode: exact real arithmetic, every branch).
#include "vp.h"
#include "rkcommon/math/LinearSpace.h"
#include "rkcommon/math/AffineSpace.h"
#include "rkcommon/math/Quaternion.h"
using namespace rkcommon::math;
#ifndef VEC3
#define VEC3 vec3f
#endif
typedef VEC3 V3;
typedef LinearSpace3<V3> L3;
typedef AffineSpaceT<L3> A3;
typedef LinearSpace2<vec2f> L2;
typedef AffineSpaceT<L2> A2;

static inline float nf() { return vp_nondet_f32(); }
static inline V3 nv3() { float x = nf(), y = nf(), z = nf(); return V3(x, y, z); }
static inline vec2f nv2() { float x = nf(), y = nf(); return vec2f(x, y); }
static inline L3 nl3() { V3 a = nv3(), b = nv3(), c = nv3(); return L3(a, b, c); }
static inline L2 nl2() { vec2f a = nv2(), b = nv2(); return L2(a, b); }
#define EQ(a, b, l) vp_assert(vp_feq((a), (b)), l)
#define EQV3(a, b, l) do { V3 a_ = (a), b_ = (b); EQ(a_.x, b_.x, l " .x"); EQ(a_.y, b_.y, l " .y"); EQ(a_.z, b_.z, l " .z"); } while (0)
#define EQV2(a, b, l) do { vec2f a_ = (a), b_ = (b); EQ(a_.x, b_.x, l " .x"); EQ(a_.y, b_.y, l " .y"); } while (0)
#define EQL3(a, b, l) do { L3 A_ = (a), B_ = (b); EQV3(A_.vx, B_.vx, l " vx"); EQV3(A_.vy, B_.vy, l " vy"); EQV3(A_.vz, B_.vz, l " vz"); } while (0)
#define EQL2(a, b, l) do { L2 A_ = (a), B_ = (b); EQV2(A_.vx, B_.vx, l " vx"); EQV2(A_.vy, B_.vy, l " vy"); } while (0)
// textbook determinant, written out independently of the library
static inline float det3(const L3 &m)
{
  return m.vx.x * (m.vy.y * m.vz.z - m.vz.y * m.vy.z) - m.vy.x * (m.vx.y * m.vz.z - m.vz.y * m.vx.z) + m.vz.x * (m.vx.y * m.vy.z - m.vy.y * m.vx.z);
}
static inline V3 mulv(const L3 &m, const V3 &p)   // textbook M*p with columns vx,vy,vz
{
  return V3(m.vx.x * p.x + m.vy.x * p.y + m.vz.x * p.z, m.vx.y * p.x + m.vy.y * p.y + m.vz.y * p.z, m.vx.z * p.x + m.vy.z * p.y + m.vz.z * p.z);
}
static inline L3 mulm(const L3 &a, const L3 &b) { return L3(mulv(a, b.vx), mulv(a, b.vy), mulv(a, b.vz)); }
#define I3 L3(V3(1, 0, 0), V3(0, 1, 0), V3(0, 0, 1))   /* no globals with dynamic initialisers in harness TUs */

VP_ENTRY vp_main_l3_inverse()
{
  L3 m = nl3();
  float d = det3(m);
  vp_assume(d != 0.f);
  EQ(m.det(), d, "det = textbook determinant");
  L3 inv = m.inverse();
  EQL3(mulm(m, inv), I3, "M*inverse(M)=I");
  EQL3(mulm(inv, m), I3, "inverse(M)*M=I");
  EQL3(rcp(m) * m, I3, "rcp(M)*M=I via operator*");
  EQL3(mulm(m, m.adjoint()), L3(V3(d, 0, 0), V3(0, d, 0), V3(0, 0, d)), "M*adjoint = det*I");
  vp_reach("end");
}

VP_ENTRY vp_main_l3_defs()
{
  L3 m = nl3();
  L3 t = m.transposed();
  EQV3(t.vx, V3(m.vx.x, m.vy.x, m.vz.x), "transposed col0 = row0");
  EQV3(t.vy, V3(m.vx.y, m.vy.y, m.vz.y), "transposed col1 = row1");
  EQV3(t.vz, V3(m.vx.z, m.vy.z, m.vz.z), "transposed col2 = row2");
  EQV3(m.row0(), V3(m.vx.x, m.vy.x, m.vz.x), "row0");
  EQV3(m.row1(), V3(m.vx.y, m.vy.y, m.vz.y), "row1");
  EQV3(m.row2(), V3(m.vx.z, m.vy.z, m.vz.z), "row2");
  V3 p = nv3();
  EQV3(m * p, mulv(m, p), "M*p");
  EQV3(xfmPoint(m, p), mulv(m, p), "xfmPoint(linear) = M*p");
  EQV3(xfmVector(m, p), mulv(m, p), "xfmVector(linear) = M*p");
  L3 b = nl3();
  EQL3(m * b, mulm(m, b), "M*B columns");
  EQV3((m * b) * p, m * (b * p), "(A*B)p = A(Bp)");
  EQ((m * b).det(), m.det() * b.det(), "det multiplicative");
  V3 s = nv3();
  EQL3(L3::scale(s), L3(V3(s.x, 0, 0), V3(0, s.y, 0), V3(0, 0, s.z)), "scale");
  float k = nf();
  EQL3(k * m, L3(V3(k * m.vx.x, k * m.vx.y, k * m.vx.z), V3(k * m.vy.x, k * m.vy.y, k * m.vy.z), V3(k * m.vz.x, k * m.vz.y, k * m.vz.z)), "scalar*M");
  EQL3(m + b, L3(m.vx + b.vx, m.vy + b.vy, m.vz + b.vz), "M+B");
  EQL3(m - b, L3(m.vx - b.vx, m.vy - b.vy, m.vz - b.vz), "M-B");
  EQL3(-m, L3(V3(-m.vx.x, -m.vx.y, -m.vx.z), V3(-m.vy.x, -m.vy.y, -m.vy.z), V3(-m.vz.x, -m.vz.y, -m.vz.z)), "-M");
  vp_reach("end");
}

VP_ENTRY vp_main_l3_xfmnormal()
{
  // cut (DESIGN 2.2): inverse() is proved correct in vp_main_l3_inverse; here xfmNormal must apply the transpose of
  // exactly that inverse (the monolithic form (M^-T n).(M v) = n.v does not finish in nlsat: unknown after 94 s)
  L3 m = nl3();
  vp_assume(det3(m) != 0.f);
  V3 n = nv3();
  L3 inv = m.inverse();
  V3 expect(inv.vx.x * n.x + inv.vx.y * n.y + inv.vx.z * n.z, inv.vy.x * n.x + inv.vy.y * n.y + inv.vy.z * n.z, inv.vz.x * n.x + inv.vz.y * n.y + inv.vz.z * n.z);
  EQV3(xfmNormal(m, n), expect, "xfmNormal = transpose(inverse(M)) * n");
  vp_reach("end");
}

VP_ENTRY vp_main_l3_rotate()
{
  V3 u = nv3();
  float len2 = u.x * u.x + u.y * u.y + u.z * u.z;
  vp_assume(len2 == 1.f);              // unit axis (normalize is then the identity up to sqrt(1))
  float ang = nf();
  L3 r = L3::rotate(u, ang);
  EQL3(mulm(r.transposed(), r), I3, "rotate: R^T R = I");
  EQ(det3(r), 1.f, "rotate: det = +1");
  EQV3(mulv(r, u), u, "rotate: fixes the axis");
  EQ(r.vx.x + r.vy.y + r.vz.z, 1.f + 2.f * cos(ang), "rotate: trace = 1 + 2cos");
  // sense of rotation: for v orthogonal to u, (R v) . (u x v) = sin * |v|^2
  V3 v = nv3();
  vp_assume(v.x * u.x + v.y * u.y + v.z * u.z == 0.f);
  V3 rv = mulv(r, v);
  V3 c(u.y * v.z - u.z * v.y, u.z * v.x - u.x * v.z, u.x * v.y - u.y * v.x);
  EQ(rv.x * c.x + rv.y * c.y + rv.z * c.z, sin(ang) * (v.x * v.x + v.y * v.y + v.z * v.z), "rotate: counter-clockwise about the axis");
  vp_reach("end");
}

// ------------------------------------------------------------------ quaternions
typedef QuaternionT<float> Q;
static inline Q nq() { float r = nf(), i = nf(), j = nf(), k = nf(); return Q(r, i, j, k); }
#define EQQ(a, b, l) do { Q a_ = (a), b_ = (b); EQ(a_.r, b_.r, l " .r"); EQ(a_.i, b_.i, l " .i"); EQ(a_.j, b_.j, l " .j"); EQ(a_.k, b_.k, l " .k"); } while (0)
static inline float qn2(const Q &q) { return q.r * q.r + q.i * q.i + q.j * q.j + q.k * q.k; }

VP_ENTRY vp_main_quat_algebra()
{
  Q a = nq(), b = nq(), c = nq();
  EQQ((a * b) * c, a * (b * c), "quaternion product associative");
  EQ(qn2(a * b), qn2(a) * qn2(b), "quaternion norm multiplicative");
  EQQ(conj(a), Q(a.r, -a.i, -a.j, -a.k), "conj");
  EQ(dot(a, b), a.r * b.r + a.i * b.i + a.j * b.j + a.k * b.k, "quaternion dot");
  EQQ(a + b, Q(a.r + b.r, a.i + b.i, a.j + b.j, a.k + b.k), "q+q");
  EQQ(a - b, Q(a.r - b.r, a.i - b.i, a.j - b.j, a.k - b.k), "q-q");
  float s = nf();
  EQQ(s * a, Q(s * a.r, s * a.i, s * a.j, s * a.k), "scalar*q");
  EQQ(a * s, Q(s * a.r, s * a.i, s * a.j, s * a.k), "q*scalar");
  vp_assume(qn2(a) != 0.f);
  EQQ(a * rcp(a), Q(1, 0, 0, 0), "q*rcp(q)=1");
  EQQ(rcp(a) * a, Q(1, 0, 0, 0), "rcp(q)*q=1");
  vp_reach("end");
}

VP_ENTRY vp_main_quat_matrix()
{
  Q q = nq();
  vp_assume(qn2(q) == 1.f);
  L3 m(q);
  EQL3(mulm(m.transposed(), m), I3, "matrix-from-quaternion is orthogonal");
  EQ(det3(m), 1.f, "matrix-from-quaternion has det +1");
  V3 v = nv3();
  EQV3(q * v, mulv(m, v), "q v conj(q) = LinearSpace3(q) v");
  EQV3(xfmPoint(q, v), mulv(m, v), "xfmPoint(q,v)");
  vp_reach("end");
}

VP_ENTRY vp_main_quat_rotate()
{
  // Quaternion::rotate(u,theta) and LinearSpace3::rotate(u,theta) describe the same rotation.
  // half-angle link: the executor only knows sin^2+cos^2=1 per argument; c=cos(theta), s=sin(theta) are tied to
  // ch=cos(theta/2), sh=sin(theta/2) by the double-angle identities, assumed here as the trigonometric contract.
  V3 u = nv3();
  vp_assume(u.x * u.x + u.y * u.y + u.z * u.z == 1.f);
  float th = nf();
  float ch = cos(0.5f * th), sh = sin(0.5f * th), c = cos(th), s = sin(th);
  vp_assume(c == ch * ch - sh * sh && s == 2.f * sh * ch);
  Q q = Q::rotate(u, th);
  EQ(q.r, ch, "Quaternion::rotate r = cos(theta/2)");
  EQ(q.i, sh * u.x, "Quaternion::rotate i"); EQ(q.j, sh * u.y, "Quaternion::rotate j"); EQ(q.k, sh * u.z, "Quaternion::rotate k");
  EQL3(L3(q), L3::rotate(u, th), "LinearSpace3(Quaternion::rotate(u,t)) = LinearSpace3::rotate(u,t)");
  vp_reach("end");
}

// quaternion-from-orthonormal-basis: every branch returns +-q for the matrix of a unit q
template <int BR> static void t_quat_from_matrix()
{
  Q q = nq();
  vp_assume(qn2(q) == 1.f);
  L3 m(q);
  float tr = m.vx.x + m.vy.y + m.vz.z;
  // select the branch (same guards as the code; the executor forks on the real guards, these assumptions
  // only make the four obligations separate solver queries)
  if (BR == 0) vp_assume(tr >= 0.f);
  if (BR == 1) vp_assume(tr < 0.f && m.vx.x >= max(m.vy.y, m.vz.z));
  if (BR == 2) vp_assume(tr < 0.f && !(m.vx.x >= max(m.vy.y, m.vz.z)) && m.vy.y >= m.vz.z);
  if (BR == 3) vp_assume(tr < 0.f && !(m.vx.x >= max(m.vy.y, m.vz.z)) && !(m.vy.y >= m.vz.z));
  Q p(m.vx, m.vy, m.vz);
  // p = +q or p = -q  <=>  all pairwise products agree: p_a p_b = q_a q_b
  EQ(p.r * p.r, q.r * q.r, "from-matrix r^2"); EQ(p.i * p.i, q.i * q.i, "from-matrix i^2");
  EQ(p.j * p.j, q.j * q.j, "from-matrix j^2"); EQ(p.k * p.k, q.k * q.k, "from-matrix k^2");
  EQ(p.r * p.i, q.r * q.i, "from-matrix r*i"); EQ(p.r * p.j, q.r * q.j, "from-matrix r*j"); EQ(p.r * p.k, q.r * q.k, "from-matrix r*k");
  EQ(p.i * p.j, q.i * q.j, "from-matrix i*j"); EQ(p.i * p.k, q.i * q.k, "from-matrix i*k"); EQ(p.j * p.k, q.j * q.k, "from-matrix j*k");
  vp_reach("end");
}
VP_ENTRY vp_main_quat_from_matrix0() { t_quat_from_matrix<0>(); }
VP_ENTRY vp_main_quat_from_matrix1() { t_quat_from_matrix<1>(); }
VP_ENTRY vp_main_quat_from_matrix2() { t_quat_from_matrix<2>(); }
VP_ENTRY vp_main_quat_from_matrix3() { t_quat_from_matrix<3>(); }

// slerp: the result is a unit quaternion on the great arc from (+-)a to b, the same for a and -a (the same rotation), with the
// right end points.  sin/cos/acos are related only by s^2+c^2=1 per angle and cos(acos d) = d: enough, because the implementation's
// weights are fb = sin(t*theta0)/sin(theta0), fa = cos(t*theta0) - d*fb.
VP_ENTRY vp_main_quat_slerp_id()
{
  // towards the identity rotation b = (1,0,0,0), every unit a: unit result and the right end points
  Q a = nq(); Q b(1.f, 0.f, 0.f, 0.f);
  vp_assume(qn2(a) == 1.f);
  float t = nf(); vp_assume(t >= 0.f && t <= 1.f);
  float d = a.r; float ad = d < 0.f ? -d : d;
  vp_assume(ad <= 0.9995f);
  Q r = slerp(t, a, b);
  EQ(qn2(r), 1.f, "slerp of unit quaternions is a unit quaternion");
  Q as = d < 0.f ? -a : a;                        // the representative of a on b's side
  EQQ(slerp(1.f, a, b), b, "slerp(1,a,b) = b");
  EQQ(slerp(0.f, a, b), as, "slerp(0,a,b) = +-a (the representative on b's side)");
  if (d != 0.f) EQQ(slerp(t, -a, b), r, "slerp(t,-a,b) = slerp(t,a,b): q and -q are the same rotation (short way round; a.b != 0)");
  vp_reach("end");
}

VP_ENTRY vp_main_quat_ypr()
{
  float yaw = nf(), pitch = nf(), roll = nf();
  Q q(yaw, pitch, roll);
  float cy = cos(yaw * .5f), sy = sin(yaw * .5f), cp = cos(pitch * .5f), sp = sin(pitch * .5f), cr = cos(roll * .5f), sr = sin(roll * .5f);
  Q qy(cy, 0, sy, 0), qx(cp, sp, 0, 0), qz(cr, 0, 0, sr);   // rotations about y (yaw), x (pitch), z (roll)
  EQQ(q, qy * qx * qz, "yaw/pitch/roll = q_y * q_x * q_z");
  EQ(qn2(q), 1.f, "yaw/pitch/roll quaternion is unit");
  vp_reach("end");
}

// ------------------------------------------------------------------ affine maps
static inline A3 na3() { L3 l = nl3(); V3 p = nv3(); return A3(l, p); }
VP_ENTRY vp_main_affine()
{
  A3 a = na3(), b = na3();
  V3 p = nv3();
  EQV3(xfmPoint(a, p), mulv(a.l, p) + a.p, "xfmPoint = l*p + p0");
  EQV3(xfmVector(a, p), mulv(a.l, p), "xfmVector = l*v");
  EQV3(xfmPoint(a * b, p), xfmPoint(a, xfmPoint(b, p)), "(A*B)(p) = A(B(p))");
  V3 t = nv3();
  A3 tr = A3::translate(t);
  EQL3(tr.l, I3, "translate: linear part identity"); EQV3(tr.p, t, "translate: origin");
  V3 s = nv3();
  A3 sc = A3::scale(s);
  EQL3(sc.l, L3(V3(s.x, 0, 0), V3(0, s.y, 0), V3(0, 0, s.z)), "scale: axes"); EQV3(sc.p, V3(0, 0, 0), "scale: origin");
  vp_reach("end");
}
VP_ENTRY vp_main_affine_rcp()
{
  A3 a = na3();
  vp_assume(det3(a.l) != 0.f);
  A3 r = rcp(a);
  A3 id = r * a;
  EQL3(id.l, I3, "rcp(A)*A linear part = I"); EQV3(id.p, V3(0, 0, 0), "rcp(A)*A origin = 0");
  V3 n = nv3();
  L3 inv = a.l.inverse();
  V3 expect(inv.vx.x * n.x + inv.vx.y * n.y + inv.vx.z * n.z, inv.vy.x * n.x + inv.vy.y * n.y + inv.vy.z * n.z, inv.vz.x * n.x + inv.vz.y * n.y + inv.vz.z * n.z);
  EQV3(xfmNormal(a, n), expect, "affine xfmNormal = inverse transpose of the linear part");
  vp_reach("end");
}
VP_ENTRY vp_main_affine_rotate_point()
{
  V3 u = nv3(), c = nv3();
  vp_assume(u.x * u.x + u.y * u.y + u.z * u.z == 1.f);
  float th = nf();
  A3 r = A3::rotate(c, u, th);
  EQV3(xfmPoint(r, c), c, "rotate about point fixes the point");
  EQL3(r.l, L3::rotate(u, th), "rotate about point: linear part is the rotation");
  vp_reach("end");
}
VP_ENTRY vp_main_lookat()
{
  V3 eye = nv3(), pt = nv3(), up = nv3();
  V3 d = pt - eye;
  float dl2 = d.x * d.x + d.y * d.y + d.z * d.z;
  vp_assume(dl2 == 1.f);                         // |point-eye| = 1 (scale-free: normalisation folds)
  V3 zc(d.y * up.z - d.z * up.y, d.z * up.x - d.x * up.z, d.x * up.y - d.y * up.x);
  vp_assume(zc.x * zc.x + zc.y * zc.y + zc.z * zc.z == 1.f);   // up chosen so that |Z x up| = 1
  A3 m = A3::lookat(eye, pt, up);
  EQV3(m.p, eye, "lookat origin = eye");
  EQV3(m.l.vz, d, "lookat Z = normalize(point-eye)");
  // compositional cut: U unit, U.Z = 0 and V = U x Z are decided here on the code's terms; that these imply
  // |V| = 1, V.U = V.Z = 0 and det(U,V,Z) = -1 is the variable-only lemma vp_main_lemma_cross (the monolithic
  // form is 'unknown' after 20 s in nlsat)
  V3 U = m.l.vx, V = m.l.vy, Z = m.l.vz;
  EQ(U.x * U.x + U.y * U.y + U.z * U.z, 1.f, "lookat U unit");
  EQ(U.x * Z.x + U.y * Z.y + U.z * Z.z, 0.f, "lookat U orthogonal to Z");
  EQV3(V, V3(U.y * Z.z - U.z * Z.y, U.z * Z.x - U.x * Z.z, U.x * Z.y - U.y * Z.x), "lookat V = U x Z");
  vp_reach("end");
}
VP_ENTRY vp_main_lemma_cross()
{
  V3 U = nv3(), Z = nv3();
  vp_assume(U.x * U.x + U.y * U.y + U.z * U.z == 1.f && Z.x * Z.x + Z.y * Z.y + Z.z * Z.z == 1.f && U.x * Z.x + U.y * Z.y + U.z * Z.z == 0.f);
  V3 V(U.y * Z.z - U.z * Z.y, U.z * Z.x - U.x * Z.z, U.x * Z.y - U.y * Z.x);
  EQ(V.x * V.x + V.y * V.y + V.z * V.z, 1.f, "lemma: |U x Z| = 1");
  EQ(V.x * U.x + V.y * U.y + V.z * U.z, 0.f, "lemma: (U x Z).U = 0");
  EQ(V.x * Z.x + V.y * Z.y + V.z * Z.z, 0.f, "lemma: (U x Z).Z = 0");
  EQ(det3(L3(U, V, Z)), -1.f, "lemma: det(U, U x Z, Z) = -1");
  vp_reach("end");
}

// ------------------------------------------------------------------ frames
template <int BR> static void t_frame()
{
  V3 n = nv3();
  vp_assume(n.x * n.x + n.y * n.y + n.z * n.z == 1.f);
  // dx0 = (1,0,0) x N = (0,-n.z,n.y), dx1 = (0,1,0) x N = (n.z,0,-n.x); selected one is assumed unit-free by scaling lemma:
  float l0 = n.z * n.z + n.y * n.y, l1 = n.z * n.z + n.x * n.x;
  if (BR == 0) vp_assume(l0 > l1); else vp_assume(!(l0 > l1));
  L3 f = frame(n);
  EQV3(f.vz, n, "frame: third axis is N");
  V3 dx = f.vx, dy = f.vy;
  EQ(dx.x * n.x + dx.y * n.y + dx.z * n.z, 0.f, "frame: dx orthogonal to N");
  EQ(dy.x * n.x + dy.y * n.y + dy.z * n.z, 0.f, "frame: dy orthogonal to N");
  EQ(dx.x * dy.x + dx.y * dy.y + dx.z * dy.z, 0.f, "frame: dx orthogonal to dy");
  EQ(dx.x * dx.x + dx.y * dx.y + dx.z * dx.z, 1.f, "frame: dx unit");
  EQ(dy.x * dy.x + dy.y * dy.y + dy.z * dy.z, 1.f, "frame: dy unit");
  vp_reach("end");
}
VP_ENTRY vp_main_frame0() { t_frame<0>(); }
VP_ENTRY vp_main_frame1() { t_frame<1>(); }

// ------------------------------------------------------------------ 2D
static inline float det2(const L2 &m) { return m.vx.x * m.vy.y - m.vy.x * m.vx.y; }
static inline vec2f mulv2(const L2 &m, const vec2f &p) { return vec2f(m.vx.x * p.x + m.vy.x * p.y, m.vx.y * p.x + m.vy.y * p.y); }
#define I2 L2(vec2f(1, 0), vec2f(0, 1))
VP_ENTRY vp_main_l2()
{
  L2 m = nl2(), b = nl2();
  vec2f p = nv2();
  EQ(m.det(), det2(m), "2x2 det");
  EQV2(m * p, mulv2(m, p), "2x2 M*p");
  EQV2((m * b) * p, m * (b * p), "2x2 (A*B)p = A(Bp)");
  EQ((m * b).det(), m.det() * b.det(), "2x2 det multiplicative");
  EQL2(m.transposed(), L2(vec2f(m.vx.x, m.vy.x), vec2f(m.vx.y, m.vy.y)), "2x2 transposed");
  EQV2(m.row0(), vec2f(m.vx.x, m.vy.x), "2x2 row0"); EQV2(m.row1(), vec2f(m.vx.y, m.vy.y), "2x2 row1");
  vp_assume(det2(m) != 0.f);
  L2 inv = m.inverse();
  EQL2(L2(mulv2(m, inv.vx), mulv2(m, inv.vy)), I2, "2x2 M*inverse(M)=I");
  EQL2(rcp(m) * m, I2, "2x2 rcp(M)*M=I");
  float th = nf();
  L2 r = L2::rotate(th);
  EQ(det2(r), 1.f, "2D rotate det +1");
  EQL2(L2(mulv2(r.transposed(), r.vx), mulv2(r.transposed(), r.vy)), I2, "2D rotate orthogonal");
  EQV2(mulv2(r, vec2f(1, 0)), vec2f(cos(th), sin(th)), "2D rotate maps e_x to (cos,sin)");
  vec2f c = nv2();
  A2 rp = A2::rotate(c, th);
  vec2f img = mulv2(rp.l, c) + rp.p;
  EQV2(img, c, "2D rotate about point fixes the point");
  vp_reach("end");
}
