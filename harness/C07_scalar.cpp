// C07: scalar math kernels meet accuracy and range contracts for every float.
#include "vp.h"
#include <cfloat>
#include <cmath>
#include "rkcommon/math/rkmath.h"
#include "rkcommon/math/vec.h"
#include "rkcommon/utility/random.h"
using namespace rkcommon::math;

static const float P2_20 = 9.5367431640625e-07f;   // 2^-20

// ---- accuracy (ERR mode: every float op = exact*(1+d); rcpss/rsqrtss by the Intel SDM contract)
VP_ENTRY vp_main_rcp_acc()
{
  float x = vp_nondet_f32();
  vp_assume((x >= 1.17549435e-38f && x < 8.5070592e37f) || (x <= -1.17549435e-38f && x > -8.5070592e37f));   // 2^-126 <= |x| < 2^126
  float r = rcp(x);
  double e = (double)r * (double)x - 1.0;     // harness arithmetic in double (its own rounding is 2^-53 per op; no float range obligations)
  vp_assert(e <= (double)P2_20 && e >= -(double)P2_20, "rcp relative error <= 2^-20");
  vp_reach("end");
}
VP_ENTRY vp_main_rsqrt_acc()
{
  float x = vp_nondet_f32();
  // [2^-124, 2^126*(1-2^-8)]: below, x*-0.5 is denormal; at the very top r*r is denormal - the (1+d) rounding model
  // does not apply to those slivers and the accuracy claim is not made there (stated in evidence)
  vp_assume(x >= 4.70197740e-38f && x <= 8.4738e37f);
  float r = rsqrt(x);
  double s = sqrt((double)x);
  double e = (double)r * s - 1.0;
  vp_assert(e <= (double)P2_20 && e >= -(double)P2_20, "rsqrt relative error <= 2^-20");
  vp_reach("end");
}
VP_ENTRY vp_main_rcp_safe()
{
  float x = vp_nondet_f32();
  vp_assume(x <= 3.40282347e38f && x >= -3.40282347e38f);     // every finite x (zeros and denormals are reals near 0 here)
  float r = rcp_safe(x);
  vp_assert(r <= 3.40282347e38f && r >= -3.40282347e38f, "rcp_safe finite");
  vp_assert(!(x > 0.f && r < 0.f) && !(x < 0.f && r > 0.f), "rcp_safe never of the opposite sign");
  vp_reach("end");
}

// ---- clamp / sign / lerp / deg2rad / madd (bit-precise)
VP_ENTRY vp_main_clamp_f()
{
  float x = vp_nondet_f32(), lo = vp_nondet_f32(), hi = vp_nondet_f32();
  vp_assume(x == x && lo == lo && hi == hi && lo <= hi);
  float c = clamp(x, lo, hi);
  vp_assert(c >= lo && c <= hi, "clamp result inside [lower,upper]");
  if (x >= lo && x <= hi) vp_assert(c == x, "clamp(x) == x when x is inside");
  float d = clamp(x);
  vp_assert(d >= 0.f && d <= 1.f, "clamp default range [0,1]");
  vp_reach("end");
}
VP_ENTRY vp_main_clamp_d()
{
  double x = vp_nondet_f64(), lo = vp_nondet_f64(), hi = vp_nondet_f64();
  vp_assume(x == x && lo == lo && hi == hi && lo <= hi);
  double c = clamp(x, lo, hi);
  vp_assert(c >= lo && c <= hi, "clamp<double> inside");
  if (x >= lo && x <= hi) vp_assert(c == x, "clamp<double> identity inside");
  vp_reach("end");
}
VP_ENTRY vp_main_clamp_i()
{
  int x = vp_nondet_int(), lo = vp_nondet_int(), hi = vp_nondet_int();
  vp_assume(lo <= hi);
  int c = clamp(x, lo, hi);
  vp_assert(c >= lo && c <= hi, "clamp<int> inside");
  if (x >= lo && x <= hi) vp_assert(c == x, "clamp<int> identity inside");
  unsigned ux = vp_nondet_u32(), ulo = vp_nondet_u32(), uhi = vp_nondet_u32();
  vp_assume(ulo <= uhi);
  unsigned uc = clamp(ux, ulo, uhi);
  vp_assert(uc >= ulo && uc <= uhi, "clamp<unsigned> inside");
  if (ux >= ulo && ux <= uhi) vp_assert(uc == ux, "clamp<unsigned> identity inside");
  vp_reach("end");
}
VP_ENTRY vp_main_defs()
{
  float x = vp_nondet_f32(), a = vp_nondet_f32(), b = vp_nondet_f32(), f = vp_nondet_f32();
  vp_assume(x == x);
  vp_assert(sign(x) == (x < 0.f ? -1.f : 1.f), "sign");
  vp_assert(vp_feq(madd(x, a, b), x * a + b), "madd = a*b+c");
  vp_assert(vp_feq(lerp(f, a, b), (1.f - f) * a + f * b), "lerp = (1-f)a + f b");
  vp_assert(vp_feq(deg2rad(x), x * 1.745329251994329576923690768489e-2f), "deg2rad = x*pi/180");
  double dx = vp_nondet_f64();
  vp_assert(vp_deq(deg2rad(dx), dx * 1.745329251994329576923690768489e-2), "deg2rad<double>");
  vp_reach("end");
}

// ---- divRoundUp: least q with q*b >= a (a >= 0, b > 0, a+b-1 representable)
template <typename T, typename ND> static void t_divroundup(ND nd)
{
  T a = (T)nd(), b = (T)nd();
  const T tmax = std::numeric_limits<T>::max();
  vp_assume(a >= 0 && b > 0 && a <= tmax - b);
  T q = divRoundUp(a, b);
  // q*b >= a and (q-1)*b < a, stated without overflow: a <= q*b  <=>  a/b < q or (a/b == q and a%b == 0)
  vp_assert(q >= 0, "divRoundUp non-negative");
  vp_assert((a % b == 0) ? (q == a / b) : (q == a / b + 1), "divRoundUp is the ceiling of a/b, i.e. the least q with q*b >= a");
  vp_reach("end");
}
VP_ENTRY vp_main_divroundup_i() { t_divroundup<int>(vp_nondet_u32); }
VP_ENTRY vp_main_divroundup_u() { t_divroundup<unsigned>(vp_nondet_u32); }
VP_ENTRY vp_main_divroundup_l() { t_divroundup<long long>(vp_nondet_u64); }
VP_ENTRY vp_main_divroundup_ul() { t_divroundup<unsigned long long>(vp_nondet_u64); }
VP_ENTRY vp_main_divroundup_s() { t_divroundup<short>(vp_nondet_u16); }
VP_ENTRY vp_main_divroundup_us() { t_divroundup<unsigned short>(vp_nondet_u16); }
VP_ENTRY vp_main_divroundup_c() { t_divroundup<signed char>(vp_nondet_u8); }
VP_ENTRY vp_main_divroundup_uc() { t_divroundup<unsigned char>(vp_nondet_u8); }

// ---- 8-bit packing: saturating, monotone, per channel
VP_ENTRY vp_main_cvt()
{
  float f = vp_nondet_f32(), g = vp_nondet_f32();
  vp_assume(f == f && g == g);
  uint32_t a = cvt_uint32(f), b = cvt_uint32(g);
  vp_assert(a <= 255u, "cvt_uint32 <= 255");
  if (f <= 0.f) vp_assert(a == 0u, "cvt_uint32 saturates to 0 below 0");
  if (f >= 1.f) vp_assert(a == 255u, "cvt_uint32 saturates to 255 above 1");
  if (f <= g) vp_assert(a <= b, "cvt_uint32 monotone");
  vp_reach("end");
}
VP_ENTRY vp_main_cvt4()
{
  float x = vp_nondet_f32(), y = vp_nondet_f32(), z = vp_nondet_f32(), w = vp_nondet_f32();
  vp_assume(x == x && y == y && z == z && w == w);
  uint32_t p = cvt_uint32(vec4f(x, y, z, w));
  vp_assert(((p >> 0) & 255u) == cvt_uint32(x), "channel x in byte 0");
  vp_assert(((p >> 8) & 255u) == cvt_uint32(y), "channel y in byte 1");
  vp_assert(((p >> 16) & 255u) == cvt_uint32(z), "channel z in byte 2");
  vp_assert(((p >> 24) & 255u) == cvt_uint32(w), "channel w in byte 3");
  vp_reach("end");
}
VP_ENTRY vp_main_srgb()
{
  float f = vp_nondet_f32(), g = vp_nondet_f32(), al = vp_nondet_f32();
  vp_assume(f == f && g == g && al == al && f <= g);
  const float k = 1.f / 2.2f;
  float cf = std::max(f, 0.f), cg = std::max(g, 0.f);
  // libm contract for powf: monotone in the base on [0,inf), pow(0)=0, pow(1)=1 (stated for exactly the applications used)
  (void)cf; (void)cg;   // the powf contract (monotone in the base, pow(0)=0, pow(1)=1) is built into the engine's model of powf
  vp_assert(linear_to_srgb(f) <= linear_to_srgb(g), "linear_to_srgb monotone");
  if (f <= 0.f) vp_assert(linear_to_srgb(f) == 0.f, "linear_to_srgb(<=0) = 0");
  vp_assert(linear_to_srgb(1.f) == 1.f, "linear_to_srgb(1) = 1");
  vec4f c(f, g, f, al);
  vec4f s = linear_to_srgba(c);
  vp_assert(vp_feq(s.x, linear_to_srgb(f)) && vp_feq(s.y, linear_to_srgb(g)) && vp_feq(s.z, linear_to_srgb(f)), "linear_to_srgba maps each colour channel separately");
  vp_assert(vp_feq(s.w, std::max(al, 0.f)), "alpha is not gamma-mapped");
  vp_reach("end");
}

// ---- random distributions: inside [lower,upper]; reproducible from the seed
struct WordGen { uint32_t w; typedef uint32_t result_type; uint32_t operator()() { return w; } static constexpr uint32_t min() { return 0u; } static constexpr uint32_t max() { return 0xffffffffu; } };
VP_ENTRY vp_main_dist_biased()
{
  float lo = vp_nondet_f32(), hi = vp_nondet_f32();
  vp_assume(lo <= hi && lo >= -1e6f && hi <= 1e6f);
  int seed = vp_nondet_int(), seq = vp_nondet_int();
  rkcommon::utility::pcg32_biased_float_distribution d(seed, seq, lo, hi), d2(seed, seq, lo, hi);
  float a = d(), a2 = d2();
  vp_assert(a >= lo && a <= hi, "pcg32_biased_float_distribution inside [lower,upper] (exact reals)");
  vp_assert(vp_feq(a, a2), "same seed and stream => same first value");
  float b = d(), b2 = d2();
  vp_assert(b >= lo && b <= hi, "second draw inside");
  vp_assert(vp_feq(b, b2), "same seed and stream => same second value");
  vp_reach("end");
}
VP_ENTRY vp_main_dist_uniform()
{
  float lo = vp_nondet_f32(), hi = vp_nondet_f32();
  vp_assume(lo <= hi && lo >= -1e6f && hi <= 1e6f);
  WordGen g; g.w = vp_nondet_u32();
  rkcommon::utility::uniform_real_distribution<float> d(lo, hi);
  float a = d(g);
  vp_assert(a >= lo && a <= hi, "uniform_real_distribution<float> inside [lower,upper] (exact reals)");
  double dlo = vp_nondet_f64(), dhi = vp_nondet_f64();
  vp_assume(dlo <= dhi && dlo >= -1e6 && dhi <= 1e6);
  rkcommon::utility::uniform_real_distribution<double> dd(dlo, dhi);
  double b = dd(g);
  vp_assert(b >= dlo && b <= dhi, "uniform_real_distribution<double> inside");
  vec3f c = rkcommon::utility::makeRandomColor(vp_nondet_u32());
  const float one_ulp = 1.f + 1.2e-7f;   // "to within one rounding step": fl(1/(m-1)) may exceed 1/(m-1)
  vp_assert(c.x >= 0.f && c.x <= one_ulp && c.y >= 0.f && c.y <= one_ulp && c.z >= 0.f && c.z <= one_ulp, "makeRandomColor components in [0,1] within one rounding step");
  vp_reach("end");
}
