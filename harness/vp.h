// Harness protocol shared by every harness TU (see DESIGN.md 2.1).
// Under ll2c/cbmc and ll2smt these externs get solver meaning; the native
// replay runtime (vp/native_rt.cpp) gives them concrete meaning.
#pragma once
#include <stdint.h>
#include <stddef.h>
extern "C" {
uint8_t vp_nondet_u8(void);
uint16_t vp_nondet_u16(void);
uint32_t vp_nondet_u32(void);
uint64_t vp_nondet_u64(void);
float vp_nondet_f32(void);
double vp_nondet_f64(void);
void vp_assume(bool c);
void vp_assert(bool c, const char *label);
void vp_reach(const char *label);   // vacuity witness: must be reachable
void vp_spawn(void (*fn)(void *), void *arg);
void vp_atomic_begin(void);
void vp_atomic_end(void);
void vp_shared(const void *p, size_t n); // declare object shared for race (lockset) instrumentation
void vp_thread(unsigned t);              // set the current logical thread (1,2,...) for the lockset discipline
void vp_point(const char *name);
bool vp_feq(float a, float b);   // symbolic: exact equality in the engine's number semantics; native replay: relative tolerance
bool vp_deq(double a, double b);
void vp_nothrow(bool on);               // while on: any C++ exception thrown is an assertion failure (and the path ends)        // scheduling point (RKCOMMON_VERIF hooks)
}
#ifdef VP_PATH
extern "C" unsigned vp_fix(unsigned x);    // path engine: x made concrete, one path per feasible value (solver-enumerated)
extern "C" void vp_sched(unsigned preemptions); // path engine: explore thread schedules with at most this many preemptions from here on
#define VP_SCHED_LOADS 0x100u               // or-ed into vp_sched's argument: atomic loads are preemption points too
extern "C" unsigned vp_pick(unsigned n);   // path engine: a value in [0,n), one path per value
#else
static inline unsigned vp_pick(unsigned n) { unsigned v = vp_nondet_u32(); vp_assume(v < n); return v; }
static inline unsigned vp_fix(unsigned x) { return x; }
static inline void vp_sched(unsigned) {}
#endif
static inline int vp_nondet_int() { return (int)vp_nondet_u32(); }
static inline bool vp_nondet_bool() { return vp_nondet_u8() & 1; }
// choose in [0,n)
static inline unsigned vp_choose(unsigned n) { unsigned v = vp_nondet_u8(); vp_assume(v < n); return v; }
#define VP_NOINLINE __attribute__((noinline))
#define VP_ENTRY extern "C" __attribute__((noinline)) void
