// C11: array wrappers stay in bounds and keep the ownership they document.
#include "vp.h"
#include <memory>
#include "rkcommon/utility/ArrayView.h"
#include "rkcommon/utility/OwnedArray.h"
#include "rkcommon/utility/FixedArray.h"
#include "rkcommon/utility/FixedArrayView.h"
#include "rkcommon/utility/DataView.h"
using namespace rkcommon::utility;

struct S12 { int a, b, c; };
static inline bool eq(const S12 &x, const S12 &y) { return x.a == y.a && x.b == y.b && x.c == y.c; }
static inline bool eq(int x, int y) { return x == y; }
static inline bool eq(uint8_t x, uint8_t y) { return x == y; }
template <typename T> static inline T nd();
template <> inline int nd<int>() { return vp_nondet_int(); }
template <> inline uint8_t nd<uint8_t>() { return vp_nondet_u8(); }
template <> inline S12 nd<S12>() { S12 s; s.a = vp_nondet_int(); s.b = vp_nondet_int(); s.c = vp_nondet_int(); return s; }

#ifndef NMAX
#define NMAX 3
#endif
#ifndef STEPS
#define STEPS 3
#endif

// --- AbstractArray::at / size / data / begin / end / bool: one step from an arbitrary (ptr,n)
template <typename T> static void t_at()
{
  T buf[NMAX + 1];
  for (int i = 0; i <= NMAX; i++) buf[i] = nd<T>();
  size_t n = vp_nondet_u64();
  vp_assume(n <= NMAX + 1);
  ArrayView<T> v(buf, n);
  size_t i = vp_nondet_u64();   // full 64-bit index
  bool threw = false, other = false;
  T *got = nullptr;
  try { got = &v.at(i); } catch (const std::runtime_error &) { threw = true; } catch (...) { other = true; }
  vp_assert(!other, "at throws only runtime_error");
  vp_assert(threw == (i >= n), "at throws exactly when i >= size");
  if (!threw) vp_assert(got == &buf[i], "at(i) is the i-th element");
  vp_assert(v.size() == n, "size");
  vp_assert(bool(v) == (n != 0), "bool == nonempty");
  vp_assert(n == 0 || (v.data() == buf && v.begin() == buf), "data/begin alias source");
  vp_assert(size_t(v.end() - v.begin()) == n, "iteration covers size elements");
  vp_assert(v.cend() == v.end() && v.cbegin() == v.begin(), "const iterators");
  if (n > 0) { size_t j = vp_nondet_u64(); vp_assume(j < n); vp_assert(&v[j] == &buf[j], "operator[]"); }
  vp_reach("at-end");
}
VP_ENTRY vp_main_at_int() { t_at<int>(); }
VP_ENTRY vp_main_at_u8() { t_at<uint8_t>(); }
VP_ENTRY vp_main_at_s12() { t_at<S12>(); }

// --- ArrayView histories: aliases its source exactly
template <typename T> static void t_view()
{
  T A[NMAX], B[NMAX];
  std::array<T, 2> C;
  for (int i = 0; i < NMAX; i++) { A[i] = nd<T>(); B[i] = nd<T>(); }
  C[0] = nd<T>(); C[1] = nd<T>();
  ArrayView<T> v;
  T *mp = nullptr; size_t mn = 0;   // reference model
  vp_assert(v.size() == 0 && !v, "default view empty");
  for (int s = 0; s < STEPS; s++) {
    unsigned op = vp_choose(6);
    size_t n = vp_nondet_u64(); vp_assume(n <= NMAX);
    switch (op) {
    case 0: v.reset(); mp = nullptr; mn = 0; break;
    case 1: v.reset(A, n); mp = A; mn = n; break;
    case 2: v.reset(B, n); mp = B; mn = n; break;
    case 3: v = C; mp = C.data(); mn = 2; break;
    case 4: { ArrayView<T> w(B, n); v = w; mp = B; mn = n; break; }   // implicit copy assignment of a view
    case 5: { ArrayView<T> w(C); ArrayView<T> x(w); v = x; mp = C.data(); mn = 2; break; }
    }
    vp_assert(v.size() == mn, "view size after op");
    if (mn) {
      vp_assert(v.data() == mp, "view aliases source");
      size_t j = vp_nondet_u64(); vp_assume(j < mn);
      T nv = nd<T>(); mp[j] = nv;                       // write through the source is visible
      vp_assert(eq(v.at(j), nv), "view sees source writes");
    } else {
      bool threw = false; try { v.at(0); } catch (const std::runtime_error &) { threw = true; }
      vp_assert(threw, "empty view at(0) throws");
    }
  }
  vp_reach("view-end");
}
VP_ENTRY vp_main_view_int() { t_view<int>(); }
VP_ENTRY vp_main_view_s12() { t_view<S12>(); }

// --- OwnedArray histories: contents independent of the source buffer
template <typename T> static void t_owned()
{
  T src[NMAX];
  for (int i = 0; i < NMAX; i++) src[i] = nd<T>();
  OwnedArray<T> a;
  T model[NMAX + 1]; size_t mn = 0;
  for (int s = 0; s < STEPS; s++) {
    unsigned op = vp_choose(5);
    size_t n = vp_nondet_u64(); vp_assume(n <= NMAX);
    switch (op) {
    case 0: a.reset(); mn = 0; break;
    case 1: a.reset(src, n); for (size_t i = 0; i < n; i++) model[i] = src[i]; mn = n; break;
    case 2: { T val = nd<T>(); size_t k = vp_nondet_u64(); vp_assume(k <= NMAX + 1);
              a.resize(k, val); for (size_t i = mn; i < k; i++) model[i] = val; mn = k; break; }
    case 3: { std::array<T, 2> arr; arr[0] = nd<T>(); arr[1] = nd<T>(); a = arr; model[0] = arr[0]; model[1] = arr[1]; mn = 2; break; }
    case 4: { OwnedArray<T> tmp(src, n); for (size_t i = 0; i < n; i++) model[i] = src[i]; mn = n; a.reset(tmp.data(), tmp.size()); break; }
    }
    // scribble on the source: the owning array must not change
    for (int i = 0; i < NMAX; i++) src[i] = nd<T>();
    vp_assert(a.size() == mn, "owned size after op");
    vp_assert(bool(a) == (mn != 0), "owned bool");
    for (size_t i = 0; i < mn; i++) vp_assert(eq(a[i], model[i]), "owned contents equal model");
    bool threw = false; try { a.at(mn); } catch (const std::runtime_error &) { threw = true; }
    vp_assert(threw, "owned at(size) throws");
  }
  vp_reach("owned-end");
}
VP_ENTRY vp_main_owned_int() { t_owned<int>(); }
VP_ENTRY vp_main_owned_u8() { t_owned<uint8_t>(); }
VP_ENTRY vp_main_owned_s12() { t_owned<S12>(); }

// --- OwnedArray copies stay valid after the original is destroyed / resized / reset
VP_ENTRY vp_main_owned_copy()
{
  int src[NMAX];
  for (int i = 0; i < NMAX; i++) src[i] = vp_nondet_int();
  size_t n = vp_nondet_u64(); vp_assume(n >= 1 && n <= NMAX);
  OwnedArray<int> *orig = new OwnedArray<int>(src, n);
  OwnedArray<int> copy(*orig);              // implicit copy construction
  OwnedArray<int> copy2;
  copy2 = *orig;                            // implicit copy assignment
  unsigned what = vp_choose(3);
  if (what == 0) delete orig;
  else if (what == 1) orig->resize(NMAX + 1, 0);   // reallocating growth
  else orig->reset();
  vp_assert(copy.size() == n && copy2.size() == n, "copy keeps size");
  for (size_t i = 0; i < n; i++) {
    vp_assert(copy[i] == src[i], "copy contents valid after original changed");
    vp_assert(copy2[i] == src[i], "assigned copy contents valid after original changed");
  }
  // a copy is independent: writing one does not change the other
  copy[0] = copy[0] ^ 1;
  vp_assert(copy2[0] == src[0], "copies independent");
  if (what != 0) delete orig;
  vp_reach("owned-copy-end");
}

// --- OwnedArray: shrink, then copy or grow again (size()/contents consistent with the last operation)
VP_ENTRY vp_main_owned_shrink()
{
  int src[NMAX];
  for (int i = 0; i < NMAX; i++) src[i] = vp_nondet_int();
  size_t n = vp_nondet_u64(), k = vp_nondet_u64(), m = vp_nondet_u64();
  vp_assume(n >= 1 && n <= NMAX && k < n && m > k && m <= NMAX + 1);
  OwnedArray<int> a(src, n);
  a.resize(k, 0);                                   // shrink
  vp_assert(a.size() == k, "size after shrinking");
  OwnedArray<int> c(a);                             // a copy reports the same size and contents
  vp_assert(c.size() == k, "copy of a shrunk array has the shrunk size");
  for (size_t i = 0; i < k; i++) vp_assert(c[i] == src[i], "copy of a shrunk array keeps the remaining elements");
  int val = vp_nondet_int();
  a.resize(m, val);                                 // grow again: the new tail is filled with val
  vp_assert(a.size() == m, "size after growing again");
  for (size_t i = 0; i < m; i++) vp_assert(a[i] == (i < k ? src[i] : val), "growing after a shrink fills the new elements with the given value");
  vp_reach("owned-shrink-end");
}

// --- FixedArray / FixedArrayView
VP_ENTRY vp_main_fixed()
{
  int src[NMAX];
  for (int i = 0; i < NMAX; i++) src[i] = vp_nondet_int();
  size_t n = vp_nondet_u64(); vp_assume(n <= NMAX);
  unsigned how = vp_choose(4);
  FixedArray<int> *f;
  size_t mn = n; bool copied = true;
  if (how == 0) { f = new FixedArray<int>(n); copied = false; }
  else if (how == 1) f = new FixedArray<int>(src, n);
  else if (how == 2) { std::array<int, 2> arr = {src[0], src[1]}; f = new FixedArray<int>(arr); mn = 2; }
  else { f = new FixedArray<int>(); std::array<int, 2> arr = {src[0], src[1]}; *f = arr; mn = 2; }
  int save[NMAX]; for (int i = 0; i < NMAX; i++) save[i] = src[i];
  for (int i = 0; i < NMAX; i++) src[i] = vp_nondet_int();
  vp_assert(f->size() == mn, "fixed size");
  if (copied) for (size_t i = 0; i < mn; i++) vp_assert((*f)[i] == save[i], "fixed contents copied in");
  if (!copied) for (size_t i = 0; i < mn; i++) (*f)[i] = save[i];
  bool threw = false; try { f->at(mn); } catch (const std::runtime_error &) { threw = true; }
  vp_assert(threw, "fixed at(size) throws");
  // copies share storage and keep it alive
  FixedArray<int> g(*f);
  delete f;
  vp_assert(g.size() == mn, "fixed copy size");
  for (size_t i = 0; i < mn; i++) vp_assert(g[i] == save[i], "fixed copy valid after original destroyed");
  vp_reach("fixed-end");
}

// (the ownership structure is kept concrete per entry: a symbolic choice of "release the handle or not"
//  makes every later reference-count test symbolic and the query does not finish)
template <bool DROP_HANDLE_FIRST> static void t_fixedview()
{
  int src[NMAX];
  for (int i = 0; i < NMAX; i++) src[i] = vp_nondet_int();
  // not make_shared: its in-place byte storage defeats cbmc's pointer propagation
  std::shared_ptr<FixedArray<int>> sp(new FixedArray<int>(src, (size_t)NMAX));
  size_t off = vp_nondet_u64(), cnt = vp_nondet_u64();
  vp_assume(off <= NMAX && cnt <= NMAX - off);
  FixedArrayView<int> *v = new FixedArrayView<int>(sp, off, cnt);
  if (DROP_HANDLE_FIRST) sp.reset();          // view outlives the handle it was made from
  vp_assert(v->size() == cnt, "fixedview size");
  for (size_t i = 0; i < cnt; i++) vp_assert((*v)[i] == src[off + i], "fixedview window");
  bool threw = false; try { v->at(cnt); } catch (const std::runtime_error &) { threw = true; }
  vp_assert(threw, "fixedview at(size) throws");
  FixedArrayView<int> w(*v);                // copy of a view keeps the data alive too
  delete v;
  sp.reset();
  for (size_t i = 0; i < cnt; i++) vp_assert(w[i] == src[off + i], "fixedview copy valid");
  vp_reach("fixedview-end");
}
VP_ENTRY vp_main_fixedview() { t_fixedview<false>(); }
VP_ENTRY vp_main_fixedview_drop() { t_fixedview<true>(); }

// --- DataView: [i] reads exactly the element at byte offset i*stride
template <typename T> static void t_dataview()
{
  alignas(8) uint8_t buf[24];
  for (int i = 0; i < 24; i++) buf[i] = vp_nondet_u8();
  size_t stride = vp_nondet_u64(), i = vp_nondet_u64();
  vp_assume(stride <= 24 && i <= 24);
  vp_assume(i * stride + sizeof(T) <= 24);
  DataView<T> dv(buf, stride);
  const T *p = &dv[i];
  vp_assert((const uint8_t *)p == buf + i * stride, "DataView address = base + i*stride");
  T expect; __builtin_memcpy(&expect, buf + i * stride, sizeof(T));
  T got; __builtin_memcpy(&got, p, sizeof(T));
  vp_assert(__builtin_memcmp(&got, &expect, sizeof(T)) == 0, "DataView reads sizeof(T) bytes there");
  DataView<T> d2; d2.reset(buf + 1, stride);
  if (i * stride + 1 + sizeof(T) <= 24) vp_assert((const uint8_t *)&d2[i] == buf + 1 + i * stride, "DataView reset");
  DataView<T> d3(buf);   // default stride = sizeof(T)
  if ((i + 1) * sizeof(T) <= 24) vp_assert((const uint8_t *)&d3[i] == buf + i * sizeof(T), "DataView default stride");
  vp_reach("dataview-end");
}
VP_ENTRY vp_main_dataview_u8() { t_dataview<uint8_t>(); }
VP_ENTRY vp_main_dataview_int() { t_dataview<int>(); }
VP_ENTRY vp_main_dataview_s12() { t_dataview<S12>(); }

#ifdef VP_PATH
#include <vector>
// (path engine) FixedArray from / assigned from std::vector and std::array, onto empty and non-empty targets, element types of 4 and 12 bytes
template <typename T> static void t_fixed_vec()
{
  unsigned n = vp_pick(NMAX + 1), how = vp_pick(4), before = vp_pick(3);
  std::vector<T> src; for (unsigned i = 0; i < n; i++) src.push_back(nd<T>());
  std::vector<T> save(src);
  FixedArray<T> *f;
  if (how == 0) f = new FixedArray<T>(src);
  else {
    std::vector<T> old; for (unsigned i = 0; i < before; i++) old.push_back(nd<T>());
    f = before ? new FixedArray<T>(old) : new FixedArray<T>();
    if (how == 1) *f = src;                                    // assignment from a vector replaces size and contents
    else { std::array<T, 2> arr = {nd<T>(), nd<T>()}; *f = arr; save.assign(arr.begin(), arr.end()); n = 2; if (how == 3) { *f = src; save = src; n = (unsigned)src.size(); } }
  }
  for (unsigned i = 0; i < src.size(); i++) src[i] = nd<T>();     // the source changes afterwards: the array owns an independent copy
  vp_assert(f->size() == n && (bool)*f == (n != 0), "FixedArray size follows the last construction / assignment");
  for (unsigned i = 0; i < n; i++) vp_assert(memcmp(&(*f)[i], &save[i], sizeof(T)) == 0, "FixedArray holds an independent copy of every element of its source");
  bool threw = false; try { f->at(n); } catch (const std::runtime_error &) { threw = true; }
  vp_assert(threw, "at(size()) throws");
  FixedArray<T> g(*f);
  delete f;
  for (unsigned i = 0; i < n; i++) vp_assert(memcmp(&g[i], &save[i], sizeof(T)) == 0, "a copy keeps the contents alive after the original is destroyed");
  vp_reach("end");
}
VP_ENTRY vp_main_fixed_vec_int() { t_fixed_vec<int>(); }
VP_ENTRY vp_main_fixed_vec_s12() { t_fixed_vec<S12>(); }
VP_ENTRY vp_main_fixed_vec_u8() { t_fixed_vec<uint8_t>(); }
#endif
