// C09: Optional and Any behave as value types for every payload type and history.
#include "vp.h"
#include <utility>
#include <string>
#include "rkcommon/utility/Optional.h"
#include "rkcommon/utility/Any.h"
#include "rkcommon/utility/demangle.cpp"
using namespace rkcommon::utility;

// lifetime-instrumented payload: ghost table of live objects keyed by address
static const void *g_live[8]; static int g_nlive, g_ctor, g_dtor;
static int slot(const void *p) { for (int i = 0; i < 8; i++) if (g_live[i] == p) return i; return -1; }
static void born(const void *p) { vp_assert(slot(p) < 0, "no constructor on storage that already holds a live object"); for (int i = 0; i < 8; i++) if (!g_live[i]) { g_live[i] = p; g_nlive++; g_ctor++; return; } vp_assert(false, "HARNESS: live table full"); }
static void died(const void *p) { int s = slot(p); vp_assert(s >= 0, "no destructor on storage that holds no live object"); if (s >= 0) { g_live[s] = nullptr; g_nlive--; g_dtor++; } }
static void used(const void *p) { vp_assert(slot(p) >= 0, "no payload operation on storage that holds no live object"); }
struct P {
  int id;
  P() : id(0) { born(this); }
  P(int i) : id(i) { born(this); }
  P(const P &o) : id(o.id) { used(&o); born(this); }
  P(P &&o) : id(o.id) { used(&o); born(this); }
  P &operator=(const P &o) { used(this); used(&o); id = o.id; return *this; }
  P &operator=(P &&o) { used(this); used(&o); id = o.id; return *this; }
  ~P() { died(this); }
  bool operator==(const P &o) const { used(this); used(&o); return id == o.id; }
  bool operator<(const P &o) const { used(this); used(&o); return id < o.id; }
  bool operator<=(const P &o) const { return id <= o.id; }
  bool operator>(const P &o) const { return id > o.id; }
  bool operator>=(const P &o) const { return id >= o.id; }
};
struct alignas(16) PA { int id; PA() : id(0) {} PA(int i) : id(i) {} };
struct P2 { int v; operator P() const { return P(v); } };   // convertible payload

template <bool ENG> static Optional<P> *mk(int id) { Optional<P> *o = new Optional<P>(); if (ENG) o->emplace(id); return o; }

// one operation on a target (engaged or empty) from a source (engaged or empty); lifecycles concrete, ids symbolic
template <int OP, bool TE, bool SE> static void t_assign()
{
  vp_nothrow(true);
  int tid = vp_nondet_int(), sid = vp_nondet_int();
  {
    Optional<P> *t = mk<TE>(tid);
    Optional<P> *s = mk<SE>(sid);
    const Optional<P> &cs = *s;
    switch (OP) {
    case 0: *t = cs; break;                                   // copy assignment
    case 1: *t = std::move(*s); break;                        // move assignment
    case 2: { Optional<P> c(cs); vp_assert(c.has_value() == SE, "copy construction: engaged exactly like its source"); if (SE) vp_assert(c->id == sid, "copy construction carries the value"); } break;
    case 3: { Optional<P> c(std::move(*s)); vp_assert(c.has_value() == SE, "move construction: engaged exactly like its source"); if (SE) vp_assert(c->id == sid, "move construction carries the value"); } break;
    }
    if (OP <= 1) {
      vp_assert(t->has_value() == SE, "after assignment the target is engaged exactly when the source was");
      if (SE) vp_assert((*t)->id == sid, "assignment carries the source value");
    }
    if (OP == 0 || OP == 2) { vp_assert(s->has_value() == SE, "copying leaves the source as it was"); if (SE) vp_assert((*s)->id == sid, "copy is independent of its source"); }
    delete t; delete s;
  }
  vp_assert(g_nlive == 0 && g_ctor == g_dtor, "every payload constructed was destroyed exactly once");
  vp_reach("end");
}
#define ASG(OP, TE, SE, n) VP_ENTRY vp_main_opt_##n() { t_assign<OP, TE, SE>(); }
ASG(0, true, true, copyassign_ee) ASG(0, true, false, copyassign_en) ASG(0, false, true, copyassign_ne) ASG(0, false, false, copyassign_nn)
ASG(1, true, true, moveassign_ee) ASG(1, true, false, moveassign_en) ASG(1, false, true, moveassign_ne) ASG(1, false, false, moveassign_nn)
ASG(2, false, true, copyctor_e) ASG(2, false, false, copyctor_n) ASG(3, false, true, movector_e) ASG(3, false, false, movector_n)

// value-level operations
template <bool TE> static void t_value_ops()
{
  vp_nothrow(true);
  int tid = vp_nondet_int(), v = vp_nondet_int(), w = vp_nondet_int();
  {
    Optional<P> *t = mk<TE>(tid);
    vp_assert(t->has_value() == TE && bool(*t) == TE, "has_value / bool");
    { P pv(v); P got = t->value_or(pv); vp_assert(got.id == (TE ? tid : v), "value_or: the value if present, else the default"); }
    { P pv(v); *t = pv; vp_assert(t->has_value() && (*t)->id == v && t->value().id == v && (**t).id == v, "assignment from a value engages with that value"); }
    t->emplace(w); vp_assert(t->has_value() && (*t)->id == w, "emplace replaces the value");
    t->reset(); vp_assert(!t->has_value(), "reset disengages");
    t->reset(); vp_assert(!t->has_value(), "reset of an empty Optional is a no-op");
    { P2 c{v}; *t = c; vp_assert(t->has_value() && (*t)->id == v, "assignment across convertible payload types"); }
    { Optional<P> m = make_optional<P>(w); vp_assert(m.has_value() && m->id == w, "make_optional"); }
    { P pv(v); Optional<P> c(pv); vp_assert(c.has_value() && c->id == v, "construction from a value"); }
    delete t;
  }
  vp_assert(g_nlive == 0 && g_ctor == g_dtor, "every payload constructed was destroyed exactly once");
  vp_reach("end");
}
VP_ENTRY vp_main_opt_valueops_e() { t_value_ops<true>(); }
VP_ENTRY vp_main_opt_valueops_n() { t_value_ops<false>(); }

template <bool AE, bool BE> static void t_compare()
{
  vp_nothrow(true);
  int a = vp_nondet_int(), b = vp_nondet_int();
  {
    Optional<P> *x = mk<AE>(a), *y = mk<BE>(b);
    bool both = AE && BE;
    vp_assert((*x == *y) == (both && a == b), "== : both engaged and equal");
    vp_assert((*x != *y) == !(both && a == b), "!= is its negation");
    vp_assert((*x < *y) == (both && a < b), "<"); vp_assert((*x <= *y) == (both && a <= b), "<=");
    vp_assert((*x > *y) == (both && a > b), ">"); vp_assert((*x >= *y) == (both && a >= b), ">=");
    delete x; delete y;
  }
  vp_assert(g_nlive == 0, "comparisons leave lifetimes balanced");
  vp_reach("end");
}
VP_ENTRY vp_main_opt_cmp_ee() { t_compare<true, true>(); }
VP_ENTRY vp_main_opt_cmp_en() { t_compare<true, false>(); }
VP_ENTRY vp_main_opt_cmp_ne() { t_compare<false, true>(); }
VP_ENTRY vp_main_opt_cmp_nn() { t_compare<false, false>(); }

// converting construction / assignment from Optional<U> (U = P2, convertible to P) on an engaged or empty target:
// same obligations as the same-type forms, incl. the ghost lifetime map (an overwritten or dropped payload is destroyed once)
template <int OP, bool TE, bool SE> static void t_convassign()
{
  vp_nothrow(true);
  int tid = vp_nondet_int(), sid = vp_nondet_int();
  {
    Optional<P> *t = mk<TE>(tid);
    Optional<P2> *s = new Optional<P2>(); if (SE) { P2 v; v.v = sid; *s = v; }
    const Optional<P2> &cs = *s;
    switch (OP) {
    case 0: *t = cs; break;
    case 1: *t = std::move(*s); break;
    case 2: { Optional<P> c(cs); vp_assert(c.has_value() == SE, "converting copy construction: engaged exactly like its source"); if (SE) vp_assert(c->id == sid, "converting copy construction carries the value"); } break;
    case 3: { Optional<P> c(std::move(*s)); vp_assert(c.has_value() == SE, "converting move construction: engaged exactly like its source"); if (SE) vp_assert(c->id == sid, "converting move construction carries the value"); } break;
    }
    if (OP <= 1) {
      vp_assert(t->has_value() == SE, "after a converting assignment the target is engaged exactly when the source was");
      if (SE) vp_assert((*t)->id == sid, "converting assignment carries the source value");
    }
    if (OP == 0 || OP == 2) { vp_assert(s->has_value() == SE, "converting copy leaves the source as it was"); if (SE) vp_assert((*s)->v == sid, "converting copy is independent of its source"); }
    delete t; delete s;
  }
  vp_assert(g_nlive == 0 && g_ctor == g_dtor, "every payload constructed was destroyed exactly once (converting forms)");
  vp_reach("end");
}
#define CASG(OP, TE, SE, n) VP_ENTRY vp_main_opt_##n() { t_convassign<OP, TE, SE>(); }
CASG(0, true, true, convcopyassign_ee) CASG(0, true, false, convcopyassign_en) CASG(0, false, true, convcopyassign_ne) CASG(0, false, false, convcopyassign_nn)
CASG(1, true, true, convmoveassign_ee) CASG(1, true, false, convmoveassign_en) CASG(1, false, true, convmoveassign_ne) CASG(1, false, false, convmoveassign_nn)
CASG(2, false, true, convcopyctor_e) CASG(2, false, false, convcopyctor_n) CASG(3, false, true, convmovector_e) CASG(3, false, false, convmovector_n)

VP_ENTRY vp_main_opt_conv()
{
  vp_nothrow(true);
  int v = vp_nondet_int();
  { Optional<int> oi(v); Optional<long> ol(oi); vp_assert(ol.has_value() && *ol == (long)v, "copy construction across convertible payload types");
    Optional<long> om(std::move(oi)); vp_assert(om.has_value() && *om == (long)v, "move construction across convertible payload types");
    Optional<int> ei; Optional<long> el(ei); vp_assert(!el.has_value(), "converting copy of an empty Optional is empty");
    const Optional<int> &cei = ei; Optional<long> tl(5L); tl = cei; vp_assert(!tl.has_value(), "converting assignment from an empty Optional disengages");
    const Optional<int> &coi = Optional<int>(v); Optional<long> t2; t2 = coi; vp_assert(t2.has_value() && *t2 == (long)v, "converting assignment from an engaged Optional"); }
  vp_assert(alignof(Optional<double>) % alignof(double) == 0, "Optional<double> storage is suitably aligned");
  vp_assert(alignof(Optional<PA>) % alignof(PA) == 0, "Optional<over-aligned> storage is suitably aligned");
  { Optional<PA> oa; oa.emplace(v); vp_assert(((uintptr_t)&oa.value()) % alignof(PA) == 0 && oa->id == v, "payload object address is aligned"); }
  vp_reach("end");
}

// ------------------------------------------------------------------ Any
template <bool AE, bool BE> static void t_any_cmp()
{
  int a = vp_nondet_int(), b = vp_nondet_int();
  bool threw = false;
  try {
    Any x, y;
    if (AE) x = a;
    if (BE) y = b;
    bool e = (x == y), n = (x != y);
    vp_assert(n == !e, "Any != is the negation of ==");
    if (AE && BE) vp_assert(e == (a == b), "engaged Anys of the same type compare by value");
    if (AE != BE) vp_assert(!e, "an empty and an engaged Any differ");
    Any z(3.5f);
    if (AE) vp_assert(!(x == z) && !(z == x), "Anys of different types differ");
  } catch (...) { threw = true; }
  vp_assert(!threw, "comparing Anys, engaged or empty, does not throw");
  vp_reach("end");
}
VP_ENTRY vp_main_any_cmp_ee() { t_any_cmp<true, true>(); }
VP_ENTRY vp_main_any_cmp_en() { t_any_cmp<true, false>(); }
VP_ENTRY vp_main_any_cmp_ne() { t_any_cmp<false, true>(); }
VP_ENTRY vp_main_any_cmp_nn() { t_any_cmp<false, false>(); }

VP_ENTRY vp_main_any_value()
{
  int v = vp_nondet_int(), w = vp_nondet_int();
  {
    Any a;
    vp_assert(!a.valid() && !a.is<int>(), "default Any is empty");
    bool threw = false; try { a.get<int>(); } catch (const std::runtime_error &) { threw = true; }
    vp_assert(threw, "get on an empty Any throws runtime_error");
    a = v;
    vp_assert(a.valid() && a.is<int>() && !a.is<float>() && !a.is<long>(), "is<T> only for the exact stored type");
    vp_assert(a.get<int>() == v, "get<T> returns the stored value");
    threw = false; try { a.get<float>(); } catch (const std::runtime_error &) { threw = true; }
    vp_assert(threw, "get with another type throws runtime_error");
    Any b(a);                                  // copy, then mutate the copy: independent
    b.get<int>() = w;
    vp_assert(a.get<int>() == v && b.get<int>() == w, "copies are independent of their source");
    Any c; c = a; vp_assert(c.is<int>() && c.get<int>() == v, "assignment from an Any");
    Any e; c = e; vp_assert(!c.valid(), "assignment from an empty Any empties the target");
    a = 2.5f; vp_assert(a.is<float>() && !a.is<int>(), "assigning a value of another type changes the stored type");
  }
  {   // instrumented payload: destroyed exactly once
    { P pv(v); Any p(pv); Any q(p); vp_assert(q.get<P>().id == v, "Any copy carries the payload"); q = P(w); vp_assert(p.get<P>().id == v && q.get<P>().id == w, "payload copies independent"); }
    vp_assert(g_nlive == 0 && g_ctor == g_dtor, "every payload held by an Any was destroyed exactly once");
  }
  vp_reach("end");
}
