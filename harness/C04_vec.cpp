// C04: every vec_t operator is the component-wise lifting of its scalar definition.
// One entry per (element type, shape); the oracle for component k is the scalar expression on component k,
// written with the member names .x .y .z .w (so a swapped, dropped or duplicated component is detected).
#include "vp.h"
#include "rkcommon/math/vec.h"
#include <functional>
using namespace rkcommon::math;

template <typename T> struct nd;
#define ND_INT(T, F, BITS) template <> struct nd<T> { static T get() { return (T)F(); } static constexpr bool is_fp = false; };
ND_INT(uint8_t, vp_nondet_u8, 8) ND_INT(int8_t, vp_nondet_u8, 8) ND_INT(uint16_t, vp_nondet_u16, 16) ND_INT(int16_t, vp_nondet_u16, 16)
ND_INT(uint32_t, vp_nondet_u32, 32) ND_INT(int32_t, vp_nondet_u32, 32) ND_INT(uint64_t, vp_nondet_u64, 64) ND_INT(int64_t, vp_nondet_u64, 64)
template <> struct nd<float> { static float get() { return vp_nondet_f32(); } static constexpr bool is_fp = true; };
template <> struct nd<double> { static double get() { return vp_nondet_f64(); } static constexpr bool is_fp = true; };

template <typename T> static inline bool same(T a, T b) { return a == b; }
template <> inline bool same<float>(float a, float b) { return vp_feq(a, b); }
template <> inline bool same<double>(double a, double b) { return vp_deq(a, b); }

// signed integer inputs are kept small enough that + - * cannot overflow (overflow is undefined for the scalar op too)
template <typename T> static inline T in()
{
  T v = nd<T>::get();
  if (std::is_signed<T>::value && std::is_integral<T>::value && sizeof(T) >= 4) {
    const T lim = sizeof(T) == 4 ? (T)32767 : (T)2147483647;
    vp_assume(v >= (T)(-lim) && v <= lim);
  }
  return v;
}

template <typename T, int N, bool A> struct C;   // component access by member name
template <typename T> struct C<T, 2, false> {
  typedef vec_t<T, 2> V;
  static T g(const V &v, int k) { return k == 0 ? v.x : v.y; }
  static V mk() { T x = in<T>(), y = in<T>(); return V(x, y); }
};
template <typename T, bool A> struct C<T, 3, A> {
  typedef vec_t<T, 3, A> V;
  static T g(const V &v, int k) { return k == 0 ? v.x : k == 1 ? v.y : v.z; }
  static V mk() { T x = in<T>(), y = in<T>(), z = in<T>(); return V(x, y, z); }
};
template <typename T> struct C<T, 4, false> {
  typedef vec_t<T, 4> V;
  static T g(const V &v, int k) { return k == 0 ? v.x : k == 1 ? v.y : k == 2 ? v.z : v.w; }
  static V mk() { T x = in<T>(), y = in<T>(), z = in<T>(), w = in<T>(); return V(x, y, z, w); }
};

#define FORK for (int k = 0; k < N; k++)
#define G(v) CC::g(v, k)
#define CHK(expr, scalar, label) do { auto r_ = (expr); FORK vp_assert(same<decltype(CC::g(r_, 0))>(CC::g(r_, k), (scalar)), label); } while (0)

template <typename T> static inline bool sum3(T r, T x, T y, T z) { return same<T>(r, (x + y) + z) || same<T>(r, x + (y + z)) || same<T>(r, (x + z) + y); }
template <typename T> static inline bool sum4(T r, T x, T y, T z, T w)
{
  return same<T>(r, ((x + y) + z) + w) || same<T>(r, (x + y) + (z + w)) || same<T>(r, x + (y + (z + w))) || same<T>(r, (x + (y + z)) + w) || same<T>(r, x + ((y + z) + w));
}

template <typename T, int N, bool A> static void t_arith()
{
  typedef C<T, N, A> CC; typedef typename CC::V V;
  V a = CC::mk(), b = CC::mk();
  T s = in<T>();
  // unary
  CHK(-a, (T)(-G(a)), "unary minus");
  CHK(+a, (T)(+G(a)), "unary plus");
  // vec op vec, vec op scalar, scalar op vec
  CHK(a + b, (T)(G(a) + G(b)), "vec+vec"); CHK(a - b, (T)(G(a) - G(b)), "vec-vec"); CHK(a * b, (T)(G(a) * G(b)), "vec*vec");
  CHK(a + s, (T)(G(a) + s), "vec+scalar"); CHK(a - s, (T)(G(a) - s), "vec-scalar"); CHK(a * s, (T)(G(a) * s), "vec*scalar");
  CHK(s + a, (T)(s + G(a)), "scalar+vec"); CHK(s - a, (T)(s - G(a)), "scalar-vec"); CHK(s * a, (T)(s * G(a)), "scalar*vec");
  // compound assignment
  { V c = a; c += b; CHK(c, (T)(G(a) + G(b)), "vec+=vec"); }
  { V c = a; c -= b; CHK(c, (T)(G(a) - G(b)), "vec-=vec"); }
  { V c = a; c *= b; CHK(c, (T)(G(a) * G(b)), "vec*=vec"); }
  { V c = a; c += s; CHK(c, (T)(G(a) + s), "vec+=scalar"); }
  { V c = a; c -= s; CHK(c, (T)(G(a) - s), "vec-=scalar"); }
  { V c = a; c *= s; CHK(c, (T)(G(a) * s), "vec*=scalar"); }
  // indexing and pointer view address the same components in x,y,z,w order
  FORK vp_assert(same<T>(a[k], G(a)), "operator[] addresses component k");
  { const T *p = (const T *)a; FORK vp_assert(same<T>(p[k], G(a)), "pointer view addresses component k"); }
  { V c = a; FORK c[k] = G(b); FORK vp_assert(same<T>(G(c), G(b)), "writable operator[]"); }
  // construction
  { V c(s); FORK vp_assert(same<T>(G(c), s), "scalar splat constructor"); }
  { T arr[4] = {in<T>(), in<T>(), in<T>(), in<T>()}; V c(arr); FORK vp_assert(same<T>(G(c), arr[k]), "pointer constructor"); }
  { V c(a); FORK vp_assert(same<T>(G(c), G(a)), "copy constructor"); }
  vp_reach("arith-end");
}


// comparisons, min/max, reductions, ordering (branch-free oracles: & and | instead of && and ||)
template <typename T, int N, bool A> static void t_cmp()
{
  typedef C<T, N, A> CC; typedef typename CC::V V;
  V a = CC::mk(), b = CC::mk();
  FORK vp_assume(G(a) == G(a) && G(b) == G(b));   // NaN excluded (the property quantifies over infinities, not NaN)
  CHK(min(a, b), (G(b) < G(a) ? G(b) : G(a)), "min");   // the scalar definition is std::min / std::max
  CHK(max(a, b), (G(a) < G(b) ? G(b) : G(a)), "max");
  { bool e = true; FORK e = e & (G(a) == G(b)); vp_assert((a == b) == e, "operator== is all-components-equal"); vp_assert((a != b) == !e, "operator!= is its negation"); }
  { bool l = false; FORK l = l | (G(a) < G(b)); vp_assert(anyLessThan(a, b) == l, "anyLessThan"); }
  if (N == 2) { vp_assert(same<T>(reduce_add(a), (T)(CC::g(a, 0) + CC::g(a, 1))), "reduce_add"); vp_assert(same<T>(reduce_mul(a), (T)(CC::g(a, 0) * CC::g(a, 1))), "reduce_mul"); }
  { T mn = CC::g(a, 0), mx = CC::g(a, 0);     // reduce_min/max = left fold of std::min / std::max
    for (int k = 1; k < N; k++) { T g = CC::g(a, k); mn = (g < mn) ? g : mn; mx = (mx < g) ? g : mx; }
    vp_assert(same<T>(reduce_min(a), mn), "reduce_min"); vp_assert(same<T>(reduce_max(a), mx), "reduce_max"); }
  { std::less<V> lt;
    bool r = false, pre = true; FORK { r = r | (pre & (G(a) < G(b))); pre = pre & (G(a) == G(b)); }
    vp_assert(lt(a, b) == r, "std::less is the lexicographic order");
    vp_assert(!lt(a, a), "std::less irreflexive");
    if (!nd<T>::is_fp) vp_assert(!(lt(a, b) & lt(b, a)), "std::less asymmetric"); }
  vp_reach("cmp-end");
}

template <typename T, int N, bool A> static void t_divmod()   // integers: / and % with non-zero divisors
{
  typedef C<T, N, A> CC; typedef typename CC::V V;
  V a = CC::mk(), b = CC::mk();
  T s = in<T>();
  FORK vp_assume(G(b) != 0);
  vp_assume(s != 0);
  CHK(a / b, (T)(G(a) / G(b)), "vec/vec"); CHK(a % b, (T)(G(a) % G(b)), "vec%vec");
  CHK(a / s, (T)(G(a) / s), "vec/scalar"); CHK(a % s, (T)(G(a) % s), "vec%scalar");
  { V c = a; c /= b; CHK(c, (T)(G(a) / G(b)), "vec/=vec"); }
  { V c = a; c %= b; CHK(c, (T)(G(a) % G(b)), "vec%=vec"); }
  { V c = a; c /= s; CHK(c, (T)(G(a) / s), "vec/=scalar"); }
  { V c = a; c %= s; CHK(c, (T)(G(a) % s), "vec%=scalar"); }
  vp_reach("divmod-end");
}

// madd exists only for float 3-vectors
template <typename T, int N, bool A> struct madd_chk { template <typename V> static void run(const V &, const V &, const V &) {} };
template <bool A> struct madd_chk<float, 3, A> {
  static void run(const vec_t<float, 3, A> &a, const vec_t<float, 3, A> &b, const vec_t<float, 3, A> &c)
  { auto r = madd(a, b, c); vp_assert(vp_feq(r.x, a.x * b.x + c.x) && vp_feq(r.y, a.y * b.y + c.y) && vp_feq(r.z, a.z * b.z + c.z), "madd"); }
};
template <typename T, int N, bool A> static void t_float()   // float-only families
{
  typedef C<T, N, A> CC; typedef typename CC::V V;
  V a = CC::mk(), b = CC::mk(), c = CC::mk();
  T s = in<T>();
  CHK(a / b, (T)(G(a) / G(b)), "vec/vec"); CHK(a / s, (T)(G(a) / s), "vec/scalar"); CHK(s / a, (T)(s / G(a)), "scalar/vec");
  { V d = a; d /= b; CHK(d, (T)(G(a) / G(b)), "vec/=vec"); }
  CHK(abs(a), abs(G(a)), "abs"); CHK(rcp(a), rcp(G(a)), "rcp"); CHK(rcp_safe(a), rcp_safe(G(a)), "rcp_safe");
  CHK(sin(a), sin(G(a)), "sin"); CHK(cos(a), cos(G(a)), "cos");
  madd_chk<T, N, A>::run(a, b, c);
  // dot / length / normalize / reductions: a sum in some association order of the component products
  if (N == 2) { vp_assert(same<T>(dot(a, b), a.x * b.x + a.y * b.y), "dot"); }
  if (N == 3) { vp_assert(sum3<T>(dot(a, b), CC::g(a, 0) * CC::g(b, 0), CC::g(a, 1) * CC::g(b, 1), CC::g(a, 2) * CC::g(b, 2)), "dot");
                vp_assert(sum3<T>(reduce_add(a), CC::g(a, 0), CC::g(a, 1), CC::g(a, 2)), "reduce_add"); }
  if (N == 4) { vp_assert(sum4<T>(dot(a, b), CC::g(a, 0) * CC::g(b, 0), CC::g(a, 1) * CC::g(b, 1), CC::g(a, 2) * CC::g(b, 2), CC::g(a, 3) * CC::g(b, 3)), "dot");
                vp_assert(sum4<T>(reduce_add(a), CC::g(a, 0), CC::g(a, 1), CC::g(a, 2), CC::g(a, 3)), "reduce_add"); }
  vp_assert(same<T>(length(a), sqrt(dot(a, a))), "length = sqrt(dot)");
  CHK(normalize(a), (T)(G(a) * rsqrt(dot(a, a))), "normalize = v * rsqrt(dot)");
  vp_reach("float-end");
}

template <typename T, bool A> static void t_cross()
{
  typedef vec_t<T, 3, A> V;
  T ax = in<T>(), ay = in<T>(), az = in<T>(), bx = in<T>(), by = in<T>(), bz = in<T>();
  V a(ax, ay, az), b(bx, by, bz);
  auto c = cross(a, b);
  vp_assert(same<T>(c.x, (T)(ay * bz - az * by)), "cross.x"); vp_assert(same<T>(c.y, (T)(az * bx - ax * bz)), "cross.y"); vp_assert(same<T>(c.z, (T)(ax * by - ay * bx)), "cross.z");
  vp_reach("cross-end");
}

// shape and element-type conversions
static void t_convert()
{
  float x = vp_nondet_f32(), y = vp_nondet_f32(), z = vp_nondet_f32(), w = vp_nondet_f32();
  vec2f v2(x, y); vec3f v3(x, y, z); vec4f v4(x, y, z, w); vec3fa v3a(x, y, z);
  { vec3f c(v2, z); vp_assert(vp_feq(c.x, x) && vp_feq(c.y, y) && vp_feq(c.z, z), "vec3(vec2, z)"); }
  { vec4f c(v3, w); vp_assert(vp_feq(c.x, x) && vp_feq(c.y, y) && vp_feq(c.z, z) && vp_feq(c.w, w), "vec4(vec3, w)"); }
  { vec4f c(v2, vec2f(z, w)); vp_assert(vp_feq(c.x, x) && vp_feq(c.y, y) && vp_feq(c.z, z) && vp_feq(c.w, w), "vec4(vec2, vec2)"); }
  { vec3f c(v3a); vp_assert(vp_feq(c.x, x) && vp_feq(c.y, y) && vp_feq(c.z, z), "vec3f(vec3fa)"); }
  { vec3fa c(v3); vp_assert(vp_feq(c.x, x) && vp_feq(c.y, y) && vp_feq(c.z, z), "vec3fa(vec3f)"); }
  { vec3d c(v3); vp_assert(vp_deq(c.x, (double)x) && vp_deq(c.y, (double)y) && vp_deq(c.z, (double)z), "vec3d(vec3f)"); }
  int i = vp_nondet_int(), j = vp_nondet_int(), k = vp_nondet_int();
  { vec3i vi(i, j, k); vec3l c(vi); vp_assert(c.x == (int64_t)i && c.y == (int64_t)j && c.z == (int64_t)k, "vec3l(vec3i)"); }
  { vec3i vi(i, j, k); vec3uc c(vi); vp_assert(c.x == (uint8_t)i && c.y == (uint8_t)j && c.z == (uint8_t)k, "vec3uc(vec3i)"); }
  vp_reach("convert-end");
}
VP_ENTRY vp_main_convert() { t_convert(); }

// mixed element types: promotion as the scalar op promotes
VP_ENTRY vp_main_mixed()
{
  int ix = vp_nondet_int(), iy = vp_nondet_int(), iz = vp_nondet_int();
  vp_assume(ix > -32768 && ix < 32768 && iy > -32768 && iy < 32768 && iz > -32768 && iz < 32768);
  float fx = vp_nondet_f32(), fy = vp_nondet_f32(), fz = vp_nondet_f32();
  vec3i a(ix, iy, iz); vec3f b(fx, fy, fz);
  auto c = a * b;
  vp_assert(vp_feq(c.x, ix * fx) && vp_feq(c.y, iy * fy) && vp_feq(c.z, iz * fz), "vec3i*vec3f promotes per component");
  auto d = b + a;
  vp_assert(vp_feq(d.x, fx + ix) && vp_feq(d.y, fy + iy) && vp_feq(d.z, fz + iz), "vec3f+vec3i");
  auto e = a * 2.5f;
  vp_assert(vp_feq(e.x, ix * 2.5f) && vp_feq(e.y, iy * 2.5f) && vp_feq(e.z, iz * 2.5f), "vec3i*float scalar");
  double dd = vp_nondet_f64();
  auto f = b * dd;
  vp_assert(vp_deq(f.x, fx * dd) && vp_deq(f.y, fy * dd) && vp_deq(f.z, fz * dd), "vec3f*double scalar");
  vp_reach("mixed-end");
}

VP_ENTRY vp_main_interp()
{
  float u = vp_nondet_f32(), v = vp_nondet_f32(), w = vp_nondet_f32();
  vec3f f(u, v, w);
  typedef C<float, 3, false> CC; const int N = 3;
  vec3f a = CC::mk(), b = CC::mk(), c = CC::mk();
  auto r = interpolate_uv(f, a, b, c);
  FORK vp_assert(sum3<float>(G(r), u * G(a), v * G(b), w * G(c)), "interpolate_uv = f.x*a + f.y*b + f.z*c");
  vec3i iv(vp_nondet_int(), vp_nondet_int(), vp_nondet_int());
  size_t am = arg_max(iv);
  vp_assert(am < 3 && iv[am] >= iv.x && iv[am] >= iv.y && iv[am] >= iv.z, "arg_max selects a maximal component");
  vp_reach("interp-end");
}

#define ARITH(T, N, A, name) VP_ENTRY vp_main_arith_##name() { t_arith<T, N, A>(); }
#define CMPF(T, N, A, name) VP_ENTRY vp_main_cmp_##name() { t_cmp<T, N, A>(); }
#define DIVMOD(T, N, A, name) VP_ENTRY vp_main_divmod_##name() { t_divmod<T, N, A>(); }
#define FLOATF(T, N, A, name) VP_ENTRY vp_main_float_##name() { t_float<T, N, A>(); }
#define ALLSHAPES(M, T, n) M(T, 2, false, n##2) M(T, 3, false, n##3) M(T, 4, false, n##4)
ALLSHAPES(ARITH, uint8_t, uc) ALLSHAPES(ARITH, int8_t, c) ALLSHAPES(ARITH, uint16_t, us) ALLSHAPES(ARITH, int16_t, s)
ALLSHAPES(ARITH, uint32_t, ui) ALLSHAPES(ARITH, int32_t, i) ALLSHAPES(ARITH, uint64_t, ul) ALLSHAPES(ARITH, int64_t, l)
ALLSHAPES(ARITH, float, f) ALLSHAPES(ARITH, double, d)
ARITH(float, 3, true, f3a) ARITH(int, 3, true, i3a)
ALLSHAPES(CMPF, uint8_t, uc) ALLSHAPES(CMPF, int8_t, c) ALLSHAPES(CMPF, uint16_t, us) ALLSHAPES(CMPF, int16_t, s)
ALLSHAPES(CMPF, uint32_t, ui) ALLSHAPES(CMPF, int32_t, i) ALLSHAPES(CMPF, uint64_t, ul) ALLSHAPES(CMPF, int64_t, l)
ALLSHAPES(CMPF, float, f) ALLSHAPES(CMPF, double, d)
CMPF(float, 3, true, f3a) CMPF(int, 3, true, i3a)
ALLSHAPES(DIVMOD, uint8_t, uc) ALLSHAPES(DIVMOD, int16_t, s) ALLSHAPES(DIVMOD, uint32_t, ui) ALLSHAPES(DIVMOD, int32_t, i) ALLSHAPES(DIVMOD, uint64_t, ul) ALLSHAPES(DIVMOD, int64_t, l)
DIVMOD(int, 3, true, i3a)
ALLSHAPES(FLOATF, float, f) ALLSHAPES(FLOATF, double, d) FLOATF(float, 3, true, f3a)
VP_ENTRY vp_main_cross_f() { t_cross<float, false>(); }
VP_ENTRY vp_main_cross_fa() { t_cross<float, true>(); }
VP_ENTRY vp_main_cross_i() { t_cross<int, false>(); }
VP_ENTRY vp_main_cross_d() { t_cross<double, false>(); }
