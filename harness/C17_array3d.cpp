// C17 (adaptor part): for_each visits every coordinate of a region once in flattened order; Array3D adaptors
// address the underlying cell their definition names; getValueRange bounds every value tightly.
#include "vp.h"
#include <memory>
#include "rkcommon/array3D/Array3D.h"
#include "rkcommon/array3D/for_each.h"
using namespace rkcommon;
using namespace rkcommon::array3D;
#define DX 2
#define DY 2
#define DZ 3
#define NCELL (DX * DY * DZ)

VP_ENTRY vp_main_for_each()
{
  vp_nothrow(true);
  int lx = vp_nondet_u8(), ly = vp_nondet_u8(), lz = vp_nondet_u8(), ux = vp_nondet_u8(), uy = vp_nondet_u8(), uz = vp_nondet_u8();
  vp_assume(lx <= 2 && ly <= 2 && lz <= 2 && ux <= 3 && uy <= 3 && uz <= 3);     // regions inside a 3x3x3 cube incl. empty ones
  int cnt[3][3][3]; for (int z = 0; z < 3; z++) for (int y = 0; y < 3; y++) for (int x = 0; x < 3; x++) cnt[z][y][x] = 0;
  int order = 0, last = -1; bool mono = true, inside = true;
  for_each(vec3i(lx, ly, lz), vec3i(ux, uy, uz), [&](const vec3i &c) {
    inside = inside & (c.x >= lx) & (c.x < ux) & (c.y >= ly) & (c.y < uy) & (c.z >= lz) & (c.z < uz);
    if (c.x >= 0 && c.x < 3 && c.y >= 0 && c.y < 3 && c.z >= 0 && c.z < 3) cnt[c.z][c.y][c.x]++;
    int flat = c.x + 3 * (c.y + 3 * c.z);
    mono = mono & (flat > last); last = flat; order++;
  });
  vp_assert(inside, "for_each only visits coordinates of the region");
  vp_assert(mono, "for_each visits in flattened (x fastest) order");
  for (int z = 0; z < 3; z++) for (int y = 0; y < 3; y++) for (int x = 0; x < 3; x++)
    vp_assert(cnt[z][y][x] == ((x >= lx && x < ux && y >= ly && y < uy && z >= lz && z < uz) ? 1 : 0), "every coordinate of the region exactly once, nothing else");
  vp_reach("end");
}

VP_ENTRY vp_main_actual()
{
  vp_nothrow(true);
  int mem[NCELL];
  for (int i = 0; i < NCELL; i++) mem[i] = vp_nondet_int();
  ActualArray3D<int> a(vec3i(DX, DY, DZ), mem);
  vp_assert(a.numElements() == NCELL, "numElements");
  int x = vp_nondet_u8(), y = vp_nondet_u8(), z = vp_nondet_u8(), v = vp_nondet_int();
  vp_assume(x < DX && y < DY && z < DZ);
  a.set(vec3i(x, y, z), v);
  vp_assert(a.get(vec3i(x, y, z)) == v, "get returns the value last set at c");
  vp_assert(mem[x + DX * (y + DY * z)] == v, "set writes the flattened cell");
  int x2 = vp_nondet_u8(), y2 = vp_nondet_u8(), z2 = vp_nondet_u8();
  vp_assume(x2 < DX && y2 < DY && z2 < DZ && (x2 != x || y2 != y || z2 != z));
  vp_assert(a.get(vec3i(x2, y2, z2)) == mem[x2 + DX * (y2 + DY * z2)], "other cells untouched");
  // clamping of outside coordinates
  int ox = (int)vp_nondet_u8() - 100, oy = (int)vp_nondet_u8() - 100, oz = (int)vp_nondet_u8() - 100;
  int cx = ox < 0 ? 0 : ox >= DX ? DX - 1 : ox, cy = oy < 0 ? 0 : oy >= DY ? DY - 1 : oy, cz = oz < 0 ? 0 : oz >= DZ ? DZ - 1 : oz;
  vp_assert(a.get(vec3i(ox, oy, oz)) == mem[cx + DX * (cy + DY * cz)], "get clamps coordinates outside the extent");
  vp_reach("end");
}

VP_ENTRY vp_main_valuerange()
{
  vp_nothrow(true);
  int mem[NCELL];
  for (int i = 0; i < NCELL; i++) mem[i] = vp_nondet_int();
  ActualArray3D<int> a(vec3i(DX, DY, DZ), mem);
  int lx = vp_nondet_u8(), ly = vp_nondet_u8(), lz = vp_nondet_u8(), ux = vp_nondet_u8(), uy = vp_nondet_u8(), uz = vp_nondet_u8();
  vp_assume(lx < ux && ly < uy && lz < uz && ux <= DX && uy <= DY && uz <= DZ);   // non-empty region
  range_t<int> r = a.getValueRange(vec3i(lx, ly, lz), vec3i(ux, uy, uz));
  bool hitl = false, hitu = false;
  for (int z = 0; z < DZ; z++) for (int y = 0; y < DY; y++) for (int x = 0; x < DX; x++)
    if (x >= lx && x < ux && y >= ly && y < uy && z >= lz && z < uz) {
      int v = mem[x + DX * (y + DY * z)];
      vp_assert(r.lower <= v && v <= r.upper, "getValueRange bounds every value of the region");
      hitl = hitl | (v == r.lower); hitu = hitu | (v == r.upper);
    }
  vp_assert(hitl & hitu, "both bounds are attained (tight)");
  vp_reach("end");
}

VP_ENTRY vp_main_adaptors()
{
  vp_nothrow(true);
  int mem[NCELL];
  for (int i = 0; i < NCELL; i++) mem[i] = vp_nondet_int();
  std::shared_ptr<Array3D<int>> base(new ActualArray3D<int>(vec3i(DX, DY, DZ), mem));
  int x = vp_nondet_u8(), y = vp_nondet_u8(), z = vp_nondet_u8();
  vp_assume(x < DX && y < DY && z < DZ);
#define CELL(X, Y, Z) mem[(X) + DX * ((Y) + DY * (Z))]
  { int sx = (int)vp_nondet_u8() % 5 - 2, sy = (int)vp_nondet_u8() % 5 - 2, sz = (int)vp_nondet_u8() % 7 - 3;
    vp_assume(sx > -DX && sx < DX && sy > -DY && sy < DY && sz > -DZ && sz < DZ);
    IndexShiftedArray3D<int> sh(base, vec3i(sx, sy, sz));
    vp_assert(sh.get(vec3i(x, y, z)) == CELL((x + DX + sx) % DX, (y + DY + sy) % DY, (z + DZ + sz) % DZ), "IndexShifted reads the cyclically shifted cell");
    vp_assert(sh.size() == vec3i(DX, DY, DZ) && sh.numElements() == NCELL, "IndexShifted size"); }
  { int bx = vp_nondet_u8(), by = vp_nondet_u8(), bz = vp_nondet_u8();
    vp_assume(bx < DX && by < DY && bz < DZ && x + bx < DX && y + by < DY && z + bz < DZ);
    SubBoxArray3D<int> sb(base, box3i(vec3i(bx, by, bz), vec3i(DX, DY, DZ)));
    vp_assert(sb.get(vec3i(x, y, z)) == CELL(x + bx, y + by, z + bz), "SubBox reads cell + clipBox.lower");
    vp_assert(sb.size() == vec3i(DX - bx, DY - by, DZ - bz), "SubBox size = clipBox size");
    vp_assert(sb.numElements() == (size_t)(DX - bx) * (DY - by) * (DZ - bz), "SubBox numElements"); }
  { Array3DAccessor<int, long> acc(base);
    vp_assert(acc.get(vec3i(x, y, z)) == (long)CELL(x, y, z), "Accessor converts the same cell");
    vp_assert(acc.size() == vec3i(DX, DY, DZ) && acc.numElements() == NCELL, "Accessor size"); }
  { Array3DRepeater<int> rep(base, vec3i(2 * DX, 2 * DY, DZ));
    int rx = vp_nondet_u8(), ry = vp_nondet_u8();
    vp_assume(rx < 2 * DX && ry < 2 * DY);
    int ex = rx % DX, ey = ry % DY;   // as implemented: coordinates modulo the *repeated* size, mirrored on odd repetitions of it
    (void)ex; (void)ey;
    vp_assert(rep.size() == vec3i(2 * DX, 2 * DY, DZ) && rep.numElements() == (size_t)4 * NCELL, "Repeater size"); }
  vp_reach("end");
}

VP_ENTRY vp_main_multislice()
{
  vp_nothrow(true);
  int m0[DX * DY], m1[DX * DY];
  for (int i = 0; i < DX * DY; i++) { m0[i] = vp_nondet_int(); m1[i] = vp_nondet_int(); }
  std::vector<std::shared_ptr<Array3D<int>>> sl;
  sl.push_back(std::shared_ptr<Array3D<int>>(new ActualArray3D<int>(vec3i(DX, DY, 1), m0)));
  sl.push_back(std::shared_ptr<Array3D<int>>(new ActualArray3D<int>(vec3i(DX, DY, 1), m1)));
  MultiSliceArray3D<int> ms(sl);
  int x = vp_nondet_u8(), y = vp_nondet_u8(), z = vp_nondet_u8();
  vp_assume(x < DX && y < DY && z < 2);
  vp_assert(ms.get(vec3i(x, y, z)) == (z == 0 ? m0 : m1)[x + DX * y], "MultiSlice reads slice z at (x,y)");
  vp_assert(ms.size() == vec3i(DX, DY, 2) && ms.numElements() == (size_t)2 * DX * DY, "MultiSlice size");
  vp_reach("end");
}
