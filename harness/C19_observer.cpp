// C19: observers see each notification once; time stamps are unique and increasing.
#include "vp.h"
#include "rkcommon/utility/Observer.h"
#include "rkcommon/utility/TimeStamp.cpp"
using namespace rkcommon::utility;
#include <sched.h>
#ifndef PH
#define PH 2
#endif
#ifndef PREEMPT
#define PREEMPT 2
#endif
#ifndef HSTEPS
#define HSTEPS 4
#endif

// Object lifecycles (who is created / destroyed when) are fixed per entry; the notification and poll pattern in between
// is symbolic (a fully symbolic lifecycle makes every pointer nullable and the query does not finish: 660 s at 2 steps).
struct Model { bool pending; };
static void phase(Observable *obl, Observer *o0, Observer *o1, Model &m0, Model &m1)
{
  // a symbolic sequence of up to PH actions: notify / poll 0 / poll 1 / nothing
  for (int s = 0; s < PH; s++) {
    unsigned a = vp_choose(4);
    if (a == 0 && obl) { obl->notifyObservers(); m0.pending = true; m1.pending = true; }
    if (a == 1 && o0) { bool w = o0->wasNotified(); vp_assert(w == (obl != nullptr && m0.pending), "observer 0: wasNotified <=> notified since its previous poll or creation"); m0.pending = false; }
    if (a == 2 && o1) { bool w = o1->wasNotified(); vp_assert(w == (obl != nullptr && m1.pending), "observer 1: wasNotified <=> notified since its previous poll or creation"); m1.pending = false; }
  }
}
// lifecycle A: both observers exist throughout; observers destroyed before the observable
VP_ENTRY vp_main_observer_a()
{
  vp_nothrow(true);
  Observable *obl = new Observable(); Observer *o0 = new Observer(*obl), *o1 = new Observer(*obl);
  Model m0{false}, m1{false};
  vp_assert(!o0->wasNotified() && !o1->wasNotified(), "no notification right after construction");
  phase(obl, o0, o1, m0, m1);
  bool w = o0->wasNotified(); vp_assert(w == m0.pending, "final poll 0"); vp_assert(!o0->wasNotified(), "second poll without a new notification is false");
  delete o0; delete o1; delete obl;
  vp_reach("end");
}
// lifecycle B: observer 1 is created after a symbolic number of notifications and destroyed mid-way
VP_ENTRY vp_main_observer_b()
{
  vp_nothrow(true);
  Observable *obl = new Observable(); Observer *o0 = new Observer(*obl);
  Model m0{false}, m1{false};
  phase(obl, o0, nullptr, m0, m1);
  Observer *o1 = new Observer(*obl); m1.pending = false;       // created after those notifications: nothing pending for it
  vp_assert(!o1->wasNotified(), "an observer created after a notification has not been notified");
  phase(obl, o0, o1, m0, m1);
  delete o1;                                                  // removal keeps the other registration intact
  phase(obl, o0, nullptr, m0, m1);
  bool w = o0->wasNotified(); vp_assert(w == m0.pending, "final poll 0 after the other observer left");
  delete obl; delete o0;                                       // observable first
  vp_reach("end");
}
// lifecycle C: the observable is destroyed first; polls afterwards are false and nothing dangles
VP_ENTRY vp_main_observer_c()
{
  vp_nothrow(true);
  Observable *obl = new Observable(); Observer *o0 = new Observer(*obl), *o1 = new Observer(*obl);
  Model m0{false}, m1{false};
  phase(obl, o0, o1, m0, m1);
  delete obl; obl = nullptr;
  vp_assert(!o0->wasNotified() && !o1->wasNotified(), "after its observable is destroyed wasNotified is false");
  phase(obl, o0, o1, m0, m1);
  delete o1; delete o0;
  vp_reach("end");
}

VP_ENTRY vp_main_timestamp_step()
{
  size_t g0 = TimeStamp::global.load();
  vp_assume(g0 < 0xfffffffffffffff0ull);     // counter wrap at 2^64 is outside the claim
  TimeStamp a;
  vp_assert(TimeStamp::global.load() > g0, "creating a TimeStamp advances the counter");
  TimeStamp b;
  vp_assert((size_t)b > (size_t)a, "next fresh value is larger");
  const size_t vb = b;
  a.renew();
  vp_assert((size_t)a > vb, "renew takes a fresh value larger than every earlier one");
  TimeStamp c(a), d(std::move(b)), e, f;
  vp_assert((size_t)f > (size_t)e && (size_t)e > (size_t)a, "default-constructed stamps are fresh and increasing");
  e = a; f = std::move(d);
  vp_assert((size_t)c == (size_t)a && (size_t)e == (size_t)a, "copies carry the source value");
  vp_assert((size_t)d == vb && (size_t)f == vb, "moves carry the source value");
  vp_assert(a < TimeStamp() , "a later fresh stamp is larger");
  vp_reach("end");
}

#if defined(VP_NATIVE_BUILD)
// native replay: a schedule cannot be forced into the two-instruction windows of the library's atomic code, so the two threads
// repeat (create + renew) many times and all values are compared (same assertions, same labels)
#define TS_ROUNDS 300000
#else
#define TS_ROUNDS 1
#endif
static size_t g_vals[2][2 * TS_ROUNDS];
static volatile int g_done[2];
static void ts_worker(void *arg)
{
  int id = (int)(intptr_t)arg;
  for (int r = 0; r < TS_ROUNDS; r++) {
    TimeStamp t;
    g_vals[id][2 * r] = t;
    t.renew();
    g_vals[id][2 * r + 1] = t;
  }
  g_done[id] = 1;
}
VP_ENTRY vp_main_timestamp_threads()
{
  vp_spawn(ts_worker, (void *)0);
  vp_spawn(ts_worker, (void *)1);
#if defined(VP_NATIVE_BUILD)
  while (!(g_done[0] && g_done[1])) {}
#elif defined(VP_PATH)
  vp_sched(PREEMPT | VP_SCHED_LOADS);
  for (int spin = 0; spin < 100000 && !(g_done[0] && g_done[1]); spin++) sched_yield();
#else
  vp_assume(g_done[0] && g_done[1]);
#endif
  bool inc = true, distinct = true;
  for (int t = 0; t < 2; t++) for (int i = 0; i + 1 < 2 * TS_ROUNDS; i++) inc = inc && g_vals[t][i] < g_vals[t][i + 1];
  vp_assert(inc, "each thread's stamps increase");
  // both sequences increase (just asserted): a merge finds any common value
  for (int i = 0, j = 0; i < 2 * TS_ROUNDS && j < 2 * TS_ROUNDS;) { if (g_vals[0][i] == g_vals[1][j]) { distinct = false; break; } if (g_vals[0][i] < g_vals[1][j]) i++; else j++; }
  vp_assert(distinct, "stamps of different threads are distinct");
  vp_reach("end");
}

#ifdef VP_PATH
// every history of HSTEPS actions over one observable and up to three observers: create / destroy observer k, notify, poll k,
// destroy the observable; checked against the reference (pending flag per observer); dangling pointers are memory obligations
VP_ENTRY vp_main_observer_hist()
{
  vp_nothrow(true);
  Observable *obl = new Observable();
  Observer *o[3] = {nullptr, nullptr, nullptr}; bool pending[3] = {false, false, false}; bool bound[3] = {false, false, false};
  for (int s = 0; s < HSTEPS; s++) {
    unsigned a = vp_pick(11);
    if (a < 3) { unsigned k = a; if (o[k] || !obl) continue; o[k] = new Observer(*obl); pending[k] = false; bound[k] = true; }
    else if (a < 6) { unsigned k = a - 3; if (!o[k]) continue; delete o[k]; o[k] = nullptr; }
    else if (a < 9) { unsigned k = a - 6; if (!o[k]) continue; bool w = o[k]->wasNotified();
                      vp_assert(w == (obl != nullptr && pending[k]), "wasNotified <=> its observable notified since this observer's previous poll or creation (false once the observable is gone)"); pending[k] = false; }
    else if (a == 9) { if (!obl) continue; obl->notifyObservers(); for (int k = 0; k < 3; k++) if (o[k]) pending[k] = true; }
    else { if (!obl) continue; delete obl; obl = nullptr; }
  }
  for (int k = 0; k < 3; k++) if (o[k]) { bool w = o[k]->wasNotified(); vp_assert(w == (obl != nullptr && pending[k]), "final poll"); vp_assert(!o[k]->wasNotified(), "a second poll without a new notification is false"); }
  for (int k = 2; k >= 0; k--) delete o[k];
  delete obl;
  vp_reach("end");
}
#endif
