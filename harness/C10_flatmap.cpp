// C10: FlatMap and ParameterizedObject conform to an insertion-ordered unique-key map.
#include "vp.h"
#include <string>
#include "rkcommon/containers/FlatMap.h"
#include "rkcommon/utility/ParameterizedObject.h"
#include "rkcommon/utility/ParameterizedObject.cpp"
#include "rkcommon/utility/demangle.cpp"
using namespace rkcommon;
#ifndef STEPS
#define STEPS 3
#endif
#define NK 5

// reference model: insertion-ordered unique-key association list
struct Ref { int key[NK + 1]; int val[NK + 1]; int n; };
static int ref_find(const Ref &r, int k) { for (int i = 0; i < r.n; i++) if (r.key[i] == k) return i; return -1; }

// One operation from an arbitrary valid state: the map holds N entries (N fixed per entry, so allocation sizes are concrete)
// with symbolic pairwise-distinct keys and symbolic values - every reachable state of that size up to key renaming -
// then one operation with a symbolic key/value is compared with the reference model.  By induction over histories this
// covers operation sequences of any length whose maps stay within N+1 entries.
template <int N, int OP> static void t_step()
{
  containers::FlatMap<int, int> m;
  Ref r; r.n = N;
  for (int i = 0; i < N; i++) { r.key[i] = vp_nondet_int(); r.val[i] = vp_nondet_int(); for (int j = 0; j < i; j++) vp_assume(r.key[j] != r.key[i]); m[r.key[i]] = r.val[i]; }
  vp_assert((int)m.size() == N, "state construction: N distinct keys stored once each");
  int k = vp_nondet_int(), v = vp_nondet_int();
  int pos = ref_find(r, k);
  switch (OP) {
  case 0: { m[k] = v; if (pos < 0) { r.key[r.n] = k; r.val[r.n] = v; r.n++; } else r.val[pos] = v; } break;
  case 1: { int got = m[k]; if (pos < 0) { vp_assert(got == 0, "operator[] on an absent key inserts a value-initialised entry"); r.key[r.n] = k; r.val[r.n] = 0; r.n++; } else vp_assert(got == r.val[pos], "operator[] returns the last value written"); } break;
  case 2: { bool threw = false; int got = 0; try { got = m.at(k); } catch (const std::out_of_range &) { threw = true; } vp_assert(threw == (pos < 0), "at() throws exactly for absent keys"); if (!threw) vp_assert(got == r.val[pos], "at() returns the last value written"); } break;
  case 3: { m.erase(k); if (pos >= 0) { for (int i = pos; i + 1 < r.n; i++) { r.key[i] = r.key[i + 1]; r.val[i] = r.val[i + 1]; } r.n--; } } break;
  case 4: { m.clear(); r.n = 0; } break;
  case 5: { vp_assert(m.contains(k) == (pos >= 0), "contains <=> inserted and not since removed"); } break;
  }
  vp_assert((int)m.size() == r.n && (m.empty() != 0) == (r.n == 0), "size/empty: each key stored once");
  int i = 0;
  for (auto it = m.begin(); it != m.end(); ++it, ++i) if (i < r.n) vp_assert(it->first == r.key[i] && it->second == r.val[i], "iteration follows first-insertion order (removal keeps the order of the rest)");
  vp_assert(i == r.n, "iteration covers exactly size() entries");
  for (int j = 0; j < r.n; j++) vp_assert(m.at_index(j).first == r.key[j] && m.at_index(j).second == r.val[j], "at_index follows first-insertion order");
  vp_reach("end");
}
#define STEP(N, OP) VP_ENTRY vp_main_fm_n##N##_op##OP() { t_step<N, OP>(); }
#define STEPS_N(N) STEP(N, 0) STEP(N, 1) STEP(N, 2) STEP(N, 3) STEP(N, 4) STEP(N, 5)
STEPS_N(0) STEPS_N(1) STEPS_N(2) STEPS_N(3) STEPS_N(4) STEPS_N(5)

// ParameterizedObject: names "a","b"; int and float values under one name
struct PObj : public utility::ParameterizedObject { using utility::ParameterizedObject::params_begin; using utility::ParameterizedObject::params_end; };
VP_ENTRY vp_main_params_get()
{
  vp_nothrow(true);
  PObj o;
  const std::string A("a");
  int iv = vp_nondet_int(); int dflt = vp_nondet_int();
  vp_assert(!o.hasParam(A) && o.getParam<int>(A, dflt) == dflt, "absent parameter: caller's default");
  o.setParam(A, iv);
  vp_assert(o.hasParam(A), "present once set");
  vp_assert((*o.params_begin())->query == false, "setting does not mark the parameter queried");
  float fd = 1.5f;
  vp_assert(o.getParam<float>(A, fd) == fd && (*o.params_begin())->query == false, "read with another type: caller's default, not marked queried");
  vp_assert(o.getParam<int>(A, dflt) == iv && (*o.params_begin())->query == true, "read with the exact type: the value, marked queried");
  o.resetAllParamQueryStatus();
  vp_assert((*o.params_begin())->query == false, "query status reset");
  vp_reach("end");
}
VP_ENTRY vp_main_params_retype()
{
  vp_nothrow(true);
  PObj o;
  const std::string A("a"), B("b");
  int iv = vp_nondet_int(); float fv = vp_nondet_f32(); int dflt = vp_nondet_int();
  o.setParam(A, iv);
  o.setParam(B, fv);
  o.setParam(A, fv);                                     // type change under one name: still one entry, same position
  vp_assert(o.params_end() - o.params_begin() == 2 && (*o.params_begin())->name == A && (*(o.params_begin() + 1))->name == B, "stored once each, first-insertion order");
  vp_assert(o.getParam<int>(A, dflt) == dflt, "after a type change the old type reads the default");
  float got = o.getParam<float>(A, 1.5f); vp_assert(__builtin_memcmp(&got, &fv, 4) == 0, "after a type change the new type reads the value");
  vp_reach("end");
}
VP_ENTRY vp_main_params_remove()
{
  vp_nothrow(true);
  PObj o;
  const std::string A("a"), B("b");
  o.setParam(A, vp_nondet_int());
  o.setParam(B, vp_nondet_int());
  o.removeParam(A);
  vp_assert(!o.hasParam(A) && o.hasParam(B) && o.params_end() - o.params_begin() == 1 && (*o.params_begin())->name == B, "removal keeps the rest");
  o.removeParam(A);                                      // removing an absent name is a no-op
  vp_assert(o.params_end() - o.params_begin() == 1, "removing an absent parameter changes nothing");
  vp_reach("end");
}

// ParameterizedObject histories: every sequence of PH actions over names "a","b","c" (set int / set float / remove /
// typed reads / hasParam / reset query status) with symbolic values, compared step by step with a reference list
// (first-insertion order, one entry per name, exact-type reads, query flag).
#ifndef PH
#define PH 3
#endif
#ifndef PNAMES
#define PNAMES 3
#endif
struct PRef { int name[PNAMES + 1]; int type[PNAMES + 1]; uint32_t bits[PNAMES + 1]; bool query[PNAMES + 1]; int n; };
static int pref_find(const PRef &r, int nm) { for (int i = 0; i < r.n; i++) if (r.name[i] == nm) return i; return -1; }
static void pref_check(PObj &o, const PRef &r, const std::string *names)
{
  vp_assert(o.params_end() - o.params_begin() == r.n, "history: each name stored once (list length)");
  int i = 0;
  for (auto it = o.params_begin(); it != o.params_end() && i < r.n; ++it, ++i) {
    vp_assert((*it)->name == names[r.name[i]], "history: first-insertion order, removal keeps the order of the rest");
    vp_assert((*it)->query == r.query[i], "history: query flag set exactly by a successful exact-type read until reset");
  }
}
VP_ENTRY vp_main_params_hist()
{
  vp_nothrow(true);
  PObj o;
  const std::string names[3] = {std::string("a"), std::string("b"), std::string("c")};
  PRef r; r.n = 0;
  for (int step = 0; step < PH; step++) {
    unsigned act = vp_pick(7);
    unsigned nm = act == 6 ? 0 : vp_pick(PNAMES);
    int pos = pref_find(r, (int)nm);
    switch (act) {
    case 0: { int v = vp_nondet_int(); o.setParam(names[nm], v);
              if (pos < 0) { pos = r.n++; r.name[pos] = nm; r.query[pos] = false; } r.type[pos] = 0; r.bits[pos] = (uint32_t)v; } break;
    case 1: { float v = vp_nondet_f32(); uint32_t b; __builtin_memcpy(&b, &v, 4); o.setParam(names[nm], v);
              if (pos < 0) { pos = r.n++; r.name[pos] = nm; r.query[pos] = false; } r.type[pos] = 1; r.bits[pos] = b; } break;
    case 2: { o.removeParam(names[nm]);
              if (pos >= 0) { for (int i = pos; i + 1 < r.n; i++) { r.name[i] = r.name[i + 1]; r.type[i] = r.type[i + 1]; r.bits[i] = r.bits[i + 1]; r.query[i] = r.query[i + 1]; } r.n--; } } break;
    case 3: { int d = vp_nondet_int(); int got = o.getParam<int>(names[nm], d);
              if (pos >= 0 && r.type[pos] == 0) { vp_assert((uint32_t)got == r.bits[pos], "history: exact-type read returns the last value written"); r.query[pos] = true; }
              else vp_assert(got == d, "history: absent or other-typed parameter reads the caller's default"); } break;
    case 4: { float d = 1.5f; float got = o.getParam<float>(names[nm], d); uint32_t gb; __builtin_memcpy(&gb, &got, 4);
              if (pos >= 0 && r.type[pos] == 1) { vp_assert(gb == r.bits[pos], "history: exact-type read returns the last value written"); r.query[pos] = true; }
              else vp_assert(gb == 0x3fc00000u, "history: absent or other-typed parameter reads the caller's default"); } break;
    case 5: { vp_assert(o.hasParam(names[nm]) == (pos >= 0), "history: hasParam <=> set and not since removed"); } break;
    case 6: { o.resetAllParamQueryStatus(); for (int i = 0; i < r.n; i++) r.query[i] = false; } break;
    }
    pref_check(o, r, names);
  }
  vp_reach("end");
}
