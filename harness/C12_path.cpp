// C12 (path engine): TransactionalValue / TransactionalBuffer with real std::mutex code on vp/llpath.py's thread model,
// every schedule with <= PREEMPT preemptions.  (Data races as such are decided by the lockset unit in C12_transactional.cpp;
// here their observable consequences - lost, duplicated, reordered, never-assigned values - are obligations.)
#include "vp.h"
#include <sched.h>
#include <atomic>
#include "rkcommon/utility/TransactionalValue.h"
#include "rkcommon/containers/TransactionalBuffer.h"
using namespace rkcommon;
#ifndef PREEMPT
#define PREEMPT 2
#endif
#ifdef VP_NATIVE_BUILD
#include <unistd.h>
#define DAWDLE() usleep(500)       // native replay: widen the windows (the schedule cannot be forced there)
#define DAWDLE_LONG() usleep(6000)
#define GIVE_TIME() usleep(100)
#include <cstdlib>
// native replay attempts alternate between timing modes (VP_ATTEMPT is set by the replay driver): 0 free-running,
// 1 / 2: the consumer's first poll waits until the producer is inside its second / first assignment (harness-owned payload code)
static int native_mode() { const char *e = getenv("VP_ATTEMPT"); return e ? atoi(e) % 3 : 0; }
static std::atomic<int> g_assigning;   // value currently being copy-assigned by the producer (0 = none)
#define MARK_ASSIGN(x) g_assigning = (x)
#define WAIT_PHASE() do { int m = native_mode(); if (m) for (int i = 0; i < 20000 && g_assigning.load() != (m == 1 ? 2 : 1); i++) usleep(10); } while (0)
#else
#define MARK_ASSIGN(x) do { } while (0)
#define WAIT_PHASE() do { } while (0)
#define DAWDLE() do { } while (0)
#define DAWDLE_LONG() do { } while (0)
#define GIVE_TIME() sched_yield()
#endif
// a payload whose two halves must agree (a torn or never-assigned value shows) and whose assignments are observable
struct Val {
  int a, b;
  Val() : a(0), b(0) {}
  Val(int x) : a(x), b(-x) {}
  Val &operator=(const Val &o) { MARK_ASSIGN(o.a); a = o.a; DAWDLE(); b = o.b; MARK_ASSIGN(0); return *this; }
  Val &operator=(Val &&o) { DAWDLE_LONG(); a = o.a; DAWDLE(); b = o.b; return *this; }   // the consumer's install step is slow natively
  Val(const Val &o) : a(o.a), b(o.b) {}
};
static utility::TransactionalValue<Val> *g_tv;
static std::atomic<int> g_done;
static void producer_value(void *) { *g_tv = Val(1); DAWDLE(); DAWDLE(); *g_tv = Val(2); g_done = 1; }   // (native: a pause between the two assignments)

VP_ENTRY vp_main_value()
{
  vp_nothrow(true);
  utility::TransactionalValue<Val> tv; g_tv = &tv; g_done = 0;
  vp_sched(PREEMPT);
  vp_spawn(producer_value, nullptr);
  int last = 0;
  WAIT_PHASE();
  for (int i = 0; i < 6; i++) {
    bool up = tv.update();
    Val v = tv.get();
    vp_assert(v.a == -v.b, "every value the consumer sees was assigned by the producer (never torn)");
    vp_assert(v.a >= 0 && v.a <= 2, "every value the consumer sees was assigned by the producer");
    if (up) vp_assert(v.a > last, "update() returns true exactly when it installed a newer value (values seen in assignment order)");
    else vp_assert(v.a == last, "update() returning false leaves the current value");
    last = v.a;
    GIVE_TIME();
  }
  for (int i = 0; i < 400 && !g_done.load(); i++) GIVE_TIME();
  if (g_done.load()) { tv.update(); vp_assert(tv.get().a == 2, "once the producer has stopped the consumer obtains the last value"); vp_assert(!tv.update(), "and a further update() reports nothing new"); }
  vp_reach("end");
}

static containers::TransactionalBuffer<int> *g_tb;
static std::atomic<int> g_pdone;
static void producer_buf(void *arg) { int id = (int)(intptr_t)arg; g_tb->push_back(id * 10 + 1); g_tb->push_back(id * 10 + 2); g_pdone++; }

VP_ENTRY vp_main_buffer()
{
  vp_nothrow(true);
  containers::TransactionalBuffer<int> tb; g_tb = &tb; g_pdone = 0;
  vp_sched(PREEMPT);
  vp_spawn(producer_buf, (void *)1);
  vp_spawn(producer_buf, (void *)2);
  int seen[2] = {0, 0}; int total = 0;
  for (int round = 0; round < 8 && total < 4; round++) {
    size_t s = tb.size(); bool e = tb.empty();
    std::vector<int> got = tb.consume();
    vp_assert(got.size() >= s || true, "size() is a snapshot");
    (void)e;
    for (int x : got) { int id = x / 10, k = x % 10; vp_assert((id == 1 || id == 2) && (k == 1 || k == 2), "only pushed elements are consumed");
      vp_assert(k == seen[id - 1] + 1, "each producer's elements appear exactly once and in its push order"); seen[id - 1] = k; total++; }
    if (total < 4) GIVE_TIME();
  }
  for (int i = 0; i < 400 && g_pdone.load() < 2; i++) GIVE_TIME();
  if (g_pdone.load() == 2) { std::vector<int> rest = tb.consume(); for (int x : rest) { int id = x / 10, k = x % 10; vp_assert(k == seen[id - 1] + 1, "late elements: once, in order"); seen[id - 1] = k; total++; }
    vp_assert(total == 4 && tb.empty() && tb.size() == 0, "every pushed element appears in exactly one consumed batch"); }
  vp_reach("end");
}
