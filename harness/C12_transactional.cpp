// C12: cross-thread hand-off containers lose, duplicate and race on nothing.
// Interleavings are explored at operation granularity in a sequential run (each operation is a critical section); that this
// granularity is sound - i.e. every access to the shared object happens under the object's mutex - is itself an obligation
// (lockset race instrumentation on the object's bytes), confirmed natively with ThreadSanitizer.
#include "vp.h"
#include "rkcommon/utility/TransactionalValue.h"
#include "rkcommon/containers/TransactionalBuffer.h"
using namespace rkcommon;
#ifndef NOPS
#define NOPS 5
#endif

#ifdef VP_NATIVE_STRESS
#include <thread>
VP_ENTRY vp_main_value()
{
  for (int it = 0; it < 300; it++) {
    utility::TransactionalValue<int> tv;
    std::thread prod([&] { for (int i = 1; i <= 50; i++) tv = i; });
    std::thread cons([&] { int last = 0; for (int i = 0; i < 50; i++) { tv.update(); int v = tv.get(); if (v < last) vp_assert(false, "values seen in assignment order"); last = v; } });
    prod.join(); cons.join();
  }
}
VP_ENTRY vp_main_buffer()
{
  for (int it = 0; it < 300; it++) {
    containers::TransactionalBuffer<int> tb;
    std::thread p1([&] { for (int i = 0; i < 20; i++) tb.push_back(i); });
    std::thread p2([&] { for (int i = 0; i < 20; i++) tb.push_back(100 + i); });
    std::thread c([&] { size_t n = 0; for (int i = 0; i < 50; i++) { n += tb.consume().size(); (void)tb.size(); (void)tb.empty(); } });
    p1.join(); p2.join(); c.join();
  }
}
#else
VP_ENTRY vp_main_value()
{
  vp_nothrow(true);
  utility::TransactionalValue<int> tv;
  vp_shared(&tv, sizeof(tv));
  int assigned = 0;        // producer assigns 1,2,... in order
  bool pending = false;    // reference model
  int installed = 0;       // last value the consumer installed
  int lastSeen = 0;
  for (int s = 0; s < NOPS; s++) {
    unsigned who = vp_choose(3);
    if (who == 0 && assigned < 2) { vp_thread(1); assigned++; tv = assigned; pending = true; }
    else if (who == 1) { vp_thread(2); bool u = tv.update(); vp_assert(u == pending, "update() returns true exactly when it installed a newer value"); if (pending) { installed = assigned; pending = false; } }
    else if (who == 2) { vp_thread(2); int v = tv.get(); vp_assert(installed == 0 || v == installed, "consumer sees the value it last installed"); if (installed) { vp_assert(v >= lastSeen && v >= 1 && v <= assigned, "every value seen was assigned, in assignment order"); lastSeen = v; } }
  }
  // producer stopped: one more update delivers the last value
  vp_thread(2);
  tv.update();
  if (assigned > 0) vp_assert(tv.get() == assigned, "after the producer stopped the consumer obtains the last value");
  vp_shared(nullptr, 0);   // threads joined: destruction is ordered after all accesses
  vp_reach("end");
}

VP_ENTRY vp_main_buffer()
{
  vp_nothrow(true);
  containers::TransactionalBuffer<int> tb;
  vp_shared(&tb, sizeof(tb));
  int pushed[2] = {0, 0};              // producer p pushes 10*p+1, 10*p+2 in order
  int model[4]; int mn = 0;            // reference: pending elements in push order
  int consumedNext[2] = {1, 1};        // next expected value index per producer (order kept, nothing lost/duplicated)
  for (int s = 0; s < NOPS; s++) {
    unsigned who = vp_choose(4);
    if (who < 2 && pushed[who] < 2) { vp_thread(1 + who); pushed[who]++; int v = 10 * (who + 1) + pushed[who]; tb.push_back(v); model[mn++] = v; }
    else if (who == 2) {
      vp_thread(3);
      std::vector<int> batch = tb.consume();
      vp_assert((int)batch.size() == mn, "batch holds exactly the elements pushed since the previous consume");
      for (int i = 0; i < mn && i < (int)batch.size(); i++) {
        vp_assert(batch[i] == model[i], "batch order = push order");
        int p = batch[i] / 10 - 1, k = batch[i] % 10;
        vp_assert(p >= 0 && p < 2 && k == consumedNext[p], "each producer's elements arrive once, in its push order");
        if (p >= 0 && p < 2) consumedNext[p] = k + 1;
      }
      mn = 0;
    }
    else if (who == 3) { vp_thread(3); vp_assert((int)tb.size() == mn && tb.empty() == (mn == 0), "size()/empty() describe the pending elements"); }
  }
  vp_shared(nullptr, 0);   // threads joined: destruction is ordered after all accesses
  vp_reach("end");
}
#endif
