// C13 / C01 / C02: internal (enkiTS) tasking back end compiled from source (-DRKCOMMON_TASKING_INTERNAL) and the serial-debug
// back end (no define).  Engine: vp/llpath.py with its thread model (pthread_create / sem_* / atomics executed, cooperative
// scheduling, optional bounded schedule exploration via vp_sched).  TBB and OpenMP are closed libraries: not checked.
#include "vp.h"
#include <atomic>
#include <sched.h>
#include "rkcommon/tasking/tasking_system_init.h"
#include "rkcommon/tasking/parallel_for.h"
#include "rkcommon/tasking/parallel_foreach.h"
#include "rkcommon/tasking/schedule.h"
#include "rkcommon/tasking/async.h"
#include "rkcommon/tasking/AsyncTask.h"
#include "rkcommon/tasking/detail/tasking_system_init.cpp"
#ifdef RKCOMMON_TASKING_INTERNAL
#include "rkcommon/tasking/detail/TaskSys.cpp"
#include "rkcommon/tasking/detail/enkiTS/TaskScheduler.cpp"
#endif
using namespace rkcommon::tasking;
extern "C" unsigned vp_threads_live(void);   // number of live threads besides the caller
#ifdef VP_NATIVE_BUILD
#include <unistd.h>
#include <dirent.h>
static unsigned count_tasks() { unsigned n = 0; DIR *d = opendir("/proc/self/task"); if (!d) return 1; while (dirent *e = readdir(d)) if (e->d_name[0] != '.') n++; closedir(d); return n; }
// native: threads of this process besides the caller, once the number has been stable for 100 ms (cancelled workers take a moment to go)
extern "C" unsigned vp_threads_live(void) { unsigned last = count_tasks(), stable = 0; for (int i = 0; i < 200 && stable < 10; i++) { usleep(10000); unsigned c = count_tasks(); if (c == last) stable++; else { stable = 0; last = c; } } return last - 1; }
#define SYM(x) x
#include <thread>
static std::thread::id g_main_id = std::this_thread::get_id();
// native replay only: invocations that land on a thread other than the caller are slow, so a missing join shows
#define SLOW_WORKER() do { if (std::this_thread::get_id() != g_main_id) usleep(3000); } while (0)
#define NATIVE_DELAY() usleep(30000)
#define SPIN_MAX 100000
#include <cstdlib>
static int native_reps() { const char *e = getenv("VP_REPS"); return e ? atoi(e) : 1; }   // set by the replay driver only
#define NATIVE_REPS native_reps()
#define WAIT_A_BIT() usleep(500)
#else
#define SYM(x) x
#define NATIVE_DELAY() 0
#define SPIN_MAX 60
#define NATIVE_REPS 1
#define SLOW_WORKER() do { } while (0)
#define WAIT_A_BIT() sched_yield()
#endif
#ifndef THREADS
#define THREADS 1
#endif
#ifndef PREEMPT
#define PREEMPT 0
#endif
static inline unsigned VPC(unsigned n) { return vp_fix(vp_choose(n)); }   // symbolic choice, one path per value the solver finds feasible
static void init_threads() { initTaskingSystem(THREADS, false); if (THREADS > 1 && PREEMPT > 0) vp_sched(PREEMPT); }

// ---------------------------------------------------------------- C13
VP_ENTRY vp_main_init()
{
  vp_nothrow(true);
  vp_assert(numTaskingThreads() == 0, "before initialisation numTaskingThreads() is 0");
  int n = (int)VPC(5) - 1;                 // -1, 0, 1, 2, 3
  initTaskingSystem(n, false);
  int got = numTaskingThreads();
#ifdef RKCOMMON_TASKING_INTERNAL
  if (n > 0) { vp_assert(got == n, "after initTaskingSystem(n), n > 0, numTaskingThreads() returns n");
               vp_assert((int)vp_threads_live() == n - 1, "exactly n-1 worker threads exist (the caller is the n-th)"); }
  else { vp_assert(got >= 1, "n <= 0 selects a positive hardware-derived default"); vp_assert((int)vp_threads_live() == got - 1, "default: as many workers as the reported count minus the caller"); }
  // initialising again replaces the previous setting
  int m = (int)VPC(3) + 1;                 // 1..3
  initTaskingSystem(m, false);
  vp_assert(numTaskingThreads() == m, "a second initialisation with m > 0 replaces the previous setting");
  vp_assert((int)vp_threads_live() == m - 1, "after re-initialisation exactly m-1 workers exist (the previous scheduler's workers are gone)");
#else
  vp_assert(got == 1, "serial debug back end: 1 (it has no threads)");
#endif
  vp_reach("end");
}

// parallel_for never runs its body on more threads than configured at the same time
static std::atomic<int> g_active, g_max;
VP_ENTRY vp_main_active()
{
  vp_nothrow(true);
  init_threads();
  g_active = 0; g_max = 0;
  int n = (int)VPC(5);
  parallel_for(n, [&](int) { int a = ++g_active; int m = g_max.load(); while (a > m && !g_max.compare_exchange_weak(m, a)) {} WAIT_A_BIT(); WAIT_A_BIT(); --g_active; });
  vp_assert(g_max.load() <= (THREADS > 0 ? THREADS : 1), "no more bodies active at once than tasking threads configured");
  vp_assert(n == 0 || g_max.load() >= 1, "bodies ran");
  vp_reach("end");
}

// ---------------------------------------------------------------- C01
static int g_cnt[8];
static std::atomic<int> g_calls;
template <typename IDX> static void t_parallel_for()
{
  vp_nothrow(true);
  init_threads();
  for (int i = 0; i < 8; i++) g_cnt[i] = 0;
  int nn = (int)VPC(8) - 2;                // -2 .. 5
  IDX n = (IDX)nn;
  if (!std::is_signed<IDX>::value) vp_assume(nn >= 0);
  parallel_for(n, [&](IDX i) {
    g_calls++; SLOW_WORKER();
    bool inside = i >= 0 && (long long)i < (long long)nn && i < (IDX)8;
    vp_assert(inside, "the function is invoked for nothing outside [0,n) (a count <= 0 invokes nothing)");
    if (inside) g_cnt[(int)i]++; });
  for (int i = 0; i < 8; i++) vp_assert(g_cnt[i] == ((i < nn) ? 1 : 0), "every index in [0,n) exactly once, visible when the call returns");
  vp_reach("end");
}
VP_ENTRY vp_main_pfor_int() { t_parallel_for<int>(); }
VP_ENTRY vp_main_pfor_size_t() { t_parallel_for<size_t>(); }
VP_ENTRY vp_main_pfor_uchar() { t_parallel_for<unsigned char>(); }
VP_ENTRY vp_main_pfor_short() { t_parallel_for<short>(); }
VP_ENTRY vp_main_pfor_long() { t_parallel_for<long long>(); }
VP_ENTRY vp_main_pfor_uint() { t_parallel_for<unsigned>(); }
VP_ENTRY vp_main_pfor_slong() { t_parallel_for<long>(); }
VP_ENTRY vp_main_pfor_ull() { t_parallel_for<unsigned long long>(); }

// the join: with two threads and every schedule of <= PREEMPT preemptions, all invocations have happened when the call returns
VP_ENTRY vp_main_pfor_join()
{
  vp_nothrow(true);
  init_threads();
  int n = 2 + (int)VPC(2);
  for (int rep = 0; rep < NATIVE_REPS; rep++) {        // native replay repeats the call: the schedule cannot be forced there
    for (int i = 0; i < 8; i++) g_cnt[i] = 0;
    parallel_for(n, [&](int i) { g_calls++; SLOW_WORKER(); g_cnt[i]++; });
    for (int i = 0; i < 8; i++) vp_assert(g_cnt[i] == ((i < n) ? 1 : 0), "every index in [0,n) exactly once, visible when the call returns");
  }
  vp_reach("end");
}

VP_ENTRY vp_main_pfor_nested()
{
  vp_nothrow(true);
  init_threads();
  static int cnt[3][3]; for (int i = 0; i < 3; i++) for (int j = 0; j < 3; j++) cnt[i][j] = 0;
  int n = (int)VPC(3), m = (int)VPC(3);
  parallel_for(n, [&](int i) { parallel_for(m, [&](int j) { g_calls++; SLOW_WORKER(); cnt[i][j]++; }); });
  for (int i = 0; i < 3; i++) for (int j = 0; j < 3; j++) vp_assert(cnt[i][j] == ((i < n && j < m) ? 1 : 0), "nested parallel_for: every (i,j) exactly once, visible on return");
  vp_reach("end");
}

// nested loops large enough to fill the (hook-shrunk, RKCOMMON_VERIF_PIPESIZE_LOG2) per-thread pipe: the scheduler's
// pipe-full fallback (run a fraction inline, hand the rest back) must still visit every pair exactly once
VP_ENTRY vp_main_pfor_nested_full()
{
  vp_nothrow(true);
  init_threads();
  static int cnt[12][6]; for (int i = 0; i < 12; i++) for (int j = 0; j < 6; j++) cnt[i][j] = 0;
  int n = 8 + 4 * (int)VPC(2), m = 3 + 3 * (int)VPC(2);       // outer 8 / 12, inner 3 / 6
  parallel_for(n, [&](int i) { parallel_for(m, [&](int j) { g_calls++; cnt[i][j]++; }); });
  for (int i = 0; i < 12; i++) for (int j = 0; j < 6; j++) vp_assert(cnt[i][j] == ((i < n && j < m) ? 1 : 0), "nested parallel_for with a full pipe: every (i,j) exactly once, visible on return");
  vp_reach("end");
}

template <int B> static void t_blocks()
{
  vp_nothrow(true);
  init_threads();
  static int cnt[12]; for (int i = 0; i < 12; i++) cnt[i] = 0;
  std::atomic<int> blocks{0};
  int n = (int)VPC(12) - 1;                // -1 .. 10
  parallel_in_blocks_of<B>(n, [&](int b, int e) {
    blocks++; SLOW_WORKER();
    vp_assert(b >= 0 && b < e && e <= n && e - b <= B && b % B == 0, "blocks are non-empty, aligned, inside [0,n) and no larger than the block size");
    for (int i = b; i < e && i < 12; i++) if (i >= 0) cnt[i]++; });
  for (int i = 0; i < 12; i++) vp_assert(cnt[i] == ((i < n) ? 1 : 0), "the blocks partition [0,n) exactly");
  vp_assert(blocks.load() == (n <= 0 ? 0 : (n + B - 1) / B), "number of blocks = ceil(n / block size)");
  vp_reach("end");
}
VP_ENTRY vp_main_blocks4() { t_blocks<4>(); }
VP_ENTRY vp_main_blocks1() { t_blocks<1>(); }
VP_ENTRY vp_main_blocks3() { t_blocks<3>(); }

VP_ENTRY vp_main_foreach()
{
  vp_nothrow(true);
  init_threads();
  std::vector<int> v; int n = (int)VPC(4);
  for (int i = 0; i < n; i++) v.push_back(0);
  parallel_foreach(v, [&](int &x) { g_calls++; SLOW_WORKER(); x++; });
  for (int i = 0; i < n; i++) vp_assert(v[i] == 1, "parallel_foreach visits every element exactly once");
  vp_reach("end");
}

// ---------------------------------------------------------------- C02
static std::atomic<int> g_runs;
VP_ENTRY vp_main_schedule()
{
  vp_nothrow(true);
  init_threads();
  g_runs = 0;
  int *heap_state = new int(41);                   // closure owning heap state
  schedule([=]() { (*heap_state)++; g_runs++; });
  // no further action by the caller: it only waits (yielding the processor), bounded
  for (int spin = 0; spin < 2000 && g_runs.load() == 0; spin++) WAIT_A_BIT();
  vp_assert(g_runs.load() == 1 && *heap_state == 42, "a scheduled function is executed exactly once, with no further action required from the caller");
  delete heap_state;
  // a parallel loop afterwards drives the scheduler again: the finished task must not be touched or run a second time
  parallel_for(2, [&](int) {});
  vp_assert(g_runs.load() == 1, "the scheduled function is not executed again");
  vp_reach("end");
}

VP_ENTRY vp_main_schedule_burst()
{
  vp_nothrow(true);
  init_threads();
  g_runs = 0;
  int k = 1 + (int)VPC(3);
  for (int i = 0; i < k; i++) schedule([]() { g_runs++; });
  for (int spin = 0; spin < 2000 && g_runs.load() < k; spin++) WAIT_A_BIT();
  vp_assert(g_runs.load() == k, "each of a burst of scheduled functions is executed exactly once");
  vp_reach("end");
}

struct Payload {
  int v; bool alive; static int ctor, dtor, assign_to_dead;
  Payload() : v((NATIVE_DELAY(), 0)), alive(true) { ctor++; }    // native replay only: widen the window between the task starting and the result member being constructed
  Payload(int x) : v(x), alive(true) { ctor++; }
  Payload(const Payload &o) : v(o.v), alive(true) { ctor++; }
  Payload &operator=(const Payload &o) { if (!alive) assign_to_dead++; v = o.v; return *this; }
  // moves leave the source in a different (moved-from) state, like a heap-owning result type would
  Payload(Payload &&o) : v(o.v), alive(true) { ctor++; o.v = ~o.v; }
  Payload &operator=(Payload &&o) { if (!alive) assign_to_dead++; v = o.v; o.v = ~o.v; return *this; }
  ~Payload() { dtor++; alive = false; }
};
int Payload::ctor, Payload::dtor, Payload::assign_to_dead;
VP_ENTRY vp_main_asynctask()
{
  vp_nothrow(true);
  init_threads();
  Payload::ctor = Payload::dtor = Payload::assign_to_dead = 0;
  int x = vp_nondet_int();
  {
    // storage that is not a constructed Payload until AsyncTask's constructor has built its result member
    alignas(AsyncTask<Payload>) static unsigned char raw[sizeof(AsyncTask<Payload>)];
    for (unsigned i = 0; i < sizeof raw; i++) raw[i] = 0;
    AsyncTask<Payload> *t = new (raw) AsyncTask<Payload>([=]() { return Payload(x); });
    Payload r = t->get();
    vp_assert(r.v == x, "AsyncTask::get() yields exactly the value the function returned");
    vp_assert(t->finished(), "after get() the task has finished");
    Payload r2 = t->get();
    vp_assert(r2.v == x, "a second get() yields the same complete value (the stored result is not consumed)");
    t->~AsyncTask<Payload>();
  }
  vp_assert(Payload::assign_to_dead == 0, "the result is never assigned into a result slot that is not (yet) a constructed object");
  vp_assert(Payload::ctor == Payload::dtor, "every result object constructed is destroyed exactly once");
  vp_reach("end");
}

// heap-allocated AsyncTask released as soon as it reports finished(): neither the task nor the scheduler may touch it afterwards
VP_ENTRY vp_main_asynctask_heap()
{
  vp_nothrow(true);
  initTaskingSystem(THREADS, false);
  int x = vp_nondet_int();
  for (int rep = 0, reps = NATIVE_REPS > 1 ? NATIVE_REPS * 50 : 1; rep < reps; rep++) {   // native replay repeats: the schedule cannot be forced there
    if (THREADS > 1 && PREEMPT > 0) vp_sched(PREEMPT); // schedules are explored from the creation of the task ...
    AsyncTask<int> *t = new AsyncTask<int>([=]() { return x; });
    for (int spin = 0; spin < SPIN_MAX && !t->finished(); spin++) sched_yield();
    int r = t->get();
    vp_assert(r == x, "finished()==true implies get() returns the complete value");
    delete t;                                           // the destructor must wait until the scheduler has let go of the task
    for (int spin = 0; spin < 4; spin++) sched_yield(); // give a late scheduler access the chance to happen (it would hit freed memory)
    if (THREADS > 1 && PREEMPT > 0) vp_sched(0);        // ... until the scheduler has had its chance to touch the released task
  }
  vp_reach("end");
}

VP_ENTRY vp_main_asynctask_drop()
{
  vp_nothrow(true);
  init_threads();
  static int ran; ran = 0;
  { AsyncTask<int> t([&]() { ran++; return 7; }); }   // destroyed without get(): the destructor waits for the task
  vp_assert(ran == 1, "destroying an AsyncTask first waits for its task (which ran exactly once)");
  vp_reach("end");
}
