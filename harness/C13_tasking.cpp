// C13 / C01 / C02 (internal tasking back end and serial-debug back end).
#include "vp.h"
#include "rkcommon/tasking/tasking_system_init.h"
#include "rkcommon/tasking/parallel_for.h"
#include "rkcommon/tasking/parallel_foreach.h"
#include "rkcommon/tasking/schedule.h"
#include "rkcommon/tasking/AsyncTask.h"
#include "rkcommon/tasking/detail/tasking_system_init.cpp"
#ifdef RKCOMMON_TASKING_INTERNAL
#include "rkcommon/tasking/detail/TaskSys.cpp"
#include "rkcommon/tasking/detail/enkiTS/TaskScheduler.cpp"
#endif
using namespace rkcommon::tasking;
extern "C" void vp_workers_mode(unsigned m);
extern "C" unsigned vp_threads_created(void);
#ifdef VP_NATIVE_BUILD
extern "C" void vp_workers_mode(unsigned) {}
extern "C" unsigned vp_threads_created(void) { return 0; }
#define SYM(x)
#else
#define SYM(x) x
#endif

// ---------------------------------------------------------------- C13
VP_ENTRY vp_main_init()
{
  vp_nothrow(true);
  vp_assert(numTaskingThreads() == 0, "before initialisation numTaskingThreads() is 0");
  int n = (int)vp_choose(5) - 1;                 // -1, 0, 1, 2, 3
  initTaskingSystem(n, false);
  int got = numTaskingThreads();
#ifdef RKCOMMON_TASKING_INTERNAL
  if (n > 0) { vp_assert(got == n, "after initTaskingSystem(n), n > 0, numTaskingThreads() returns n");
               SYM(vp_assert((int)vp_threads_created() == n - 1, "exactly n-1 worker threads are created (the caller is the n-th)");) }
  else { vp_assert(got >= 1, "n <= 0 selects a positive hardware-derived default"); SYM(vp_assert((int)vp_threads_created() == got - 1, "default: hardware count minus the caller");) }
  // initialising again replaces the previous setting
  int m = (int)vp_choose(3) + 1;                 // 1..3
  unsigned before = vp_threads_created();
  vp_workers_mode(1);                            // the old workers get to observe the stop flag and exit
  initTaskingSystem(m, false);
  vp_assert(numTaskingThreads() == m, "a second initialisation with m > 0 replaces the previous setting");
  SYM(vp_assert((int)(vp_threads_created() - before) == m - 1, "the new scheduler creates m-1 workers");)
#else
  vp_assert(got == 1, "serial debug back end: 1 (it has no threads)");
#endif
  vp_reach("end");
}

// ---------------------------------------------------------------- C01
static int g_cnt[8]; static bool g_outside;
template <typename IDX> static void t_parallel_for(int threads)
{
  vp_nothrow(true);
  if (threads > 0) initTaskingSystem(threads, false);
  for (int i = 0; i < 8; i++) g_cnt[i] = 0; g_outside = false;
  int nn = (int)vp_choose(8) - 2;                // -2 .. 5
  IDX n = (IDX)nn;
  if (!std::is_signed<IDX>::value) vp_assume(nn >= 0);
  parallel_for(n, [&](IDX i) { if (i >= 0 && i < (IDX)8 && (long long)i < (long long)nn) g_cnt[(int)i]++; else g_outside = true; });
  vp_assert(!g_outside, "the function is invoked for nothing outside [0,n) (a count <= 0 invokes nothing)");
  for (int i = 0; i < 8; i++) vp_assert(g_cnt[i] == ((i < nn) ? 1 : 0), "every index in [0,n) exactly once, visible when the call returns");
  vp_reach("end");
}
VP_ENTRY vp_main_pfor_int() { t_parallel_for<int>(1); }
VP_ENTRY vp_main_pfor_size_t() { t_parallel_for<size_t>(1); }
VP_ENTRY vp_main_pfor_uchar() { t_parallel_for<unsigned char>(1); }
VP_ENTRY vp_main_pfor_short() { t_parallel_for<short>(1); }
VP_ENTRY vp_main_pfor_long() { t_parallel_for<long long>(1); }
VP_ENTRY vp_main_pfor_uint() { t_parallel_for<unsigned>(1); }

VP_ENTRY vp_main_pfor_nested()
{
  vp_nothrow(true);
  initTaskingSystem(1, false);
  static int cnt[3][3]; for (int i = 0; i < 3; i++) for (int j = 0; j < 3; j++) cnt[i][j] = 0;
  int n = (int)vp_choose(3), m = (int)vp_choose(3);
  parallel_for(n, [&](int i) { parallel_for(m, [&](int j) { cnt[i][j]++; }); });
  for (int i = 0; i < 3; i++) for (int j = 0; j < 3; j++) vp_assert(cnt[i][j] == ((i < n && j < m) ? 1 : 0), "nested parallel_for: every (i,j) exactly once");
  vp_reach("end");
}

template <int B> static void t_blocks()
{
  vp_nothrow(true);
  initTaskingSystem(1, false);
  static int cnt[12]; for (int i = 0; i < 12; i++) cnt[i] = 0;
  bool bad = false; int blocks = 0;
  int n = (int)vp_choose(12) - 1;                // -1 .. 10
  parallel_in_blocks_of<B>(n, [&](int b, int e) { blocks++; if (!(b >= 0 && b < e && e <= n && e - b <= B && b % B == 0)) bad = true; for (int i = b; i < e && i < 12; i++) if (i >= 0) cnt[i]++; });
  vp_assert(!bad, "blocks are non-empty, aligned, inside [0,n) and no larger than the block size");
  for (int i = 0; i < 12; i++) vp_assert(cnt[i] == ((i < n) ? 1 : 0), "the blocks partition [0,n) exactly");
  vp_assert(blocks == (n <= 0 ? 0 : (n + B - 1) / B), "number of blocks = ceil(n / block size)");
  vp_reach("end");
}
VP_ENTRY vp_main_blocks4() { t_blocks<4>(); }
VP_ENTRY vp_main_blocks1() { t_blocks<1>(); }

VP_ENTRY vp_main_foreach()
{
  vp_nothrow(true);
  initTaskingSystem(1, false);
  std::vector<int> v; int n = (int)vp_choose(4);
  for (int i = 0; i < n; i++) v.push_back(0);
  parallel_foreach(v, [&](int &x) { x++; });
  for (int i = 0; i < n; i++) vp_assert(v[i] == 1, "parallel_foreach visits every element exactly once");
  vp_reach("end");
}

// ---------------------------------------------------------------- C02
VP_ENTRY vp_main_schedule()
{
  vp_nothrow(true);
  initTaskingSystem(1, false);
  static int runs; runs = 0;
  int *heap_state = new int(41);                   // closure owning heap state
  schedule([=]() { runs++; (*heap_state)++; });
#ifdef RKCOMMON_TASKING_INTERNAL
  // with one thread the task runs when the caller next helps the scheduler: a parallel_for does that
  parallel_for(1, [&](int) {});
#endif
  vp_assert(runs == 1 && *heap_state == 42, "a scheduled function is executed exactly once (no further action than running the scheduler)");
  delete heap_state;
  vp_reach("end");
}

struct Payload { int v; static int ctor, dtor, assign_to_dead; bool alive; Payload() : v(0), alive(true) { ctor++; } Payload(int x) : v(x), alive(true) { ctor++; }
  Payload(const Payload &o) : v(o.v), alive(true) { ctor++; } Payload &operator=(const Payload &o) { if (!alive) assign_to_dead++; v = o.v; return *this; } ~Payload() { dtor++; alive = false; } };
int Payload::ctor, Payload::dtor, Payload::assign_to_dead;
VP_ENTRY vp_main_asynctask()
{
  vp_nothrow(true);
  initTaskingSystem(1, false);
  Payload::ctor = Payload::dtor = Payload::assign_to_dead = 0;
  int x = vp_nondet_int();
  {
    AsyncTask<Payload> t([=]() { return Payload(x); });
    Payload r = t.get();
    vp_assert(r.v == x, "AsyncTask::get() yields exactly the value the function returned");
    vp_assert(t.finished(), "after get() the task has finished");
  }
  vp_assert(Payload::assign_to_dead == 0, "the result is never assigned into storage that holds no constructed object");
  vp_assert(Payload::ctor == Payload::dtor, "every result object constructed is destroyed exactly once");
  vp_reach("end");
}
