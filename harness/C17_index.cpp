// C17 (index part): flatten/reshape, longIndex/coordsOf are mutually inverse bijections computed in 64 bits without overflow.
#include "vp.h"
#include "rkcommon/utility/multidim_index_sequence.h"
#include "rkcommon/array3D/for_each.h"
using namespace rkcommon;
typedef unsigned __int128 U128;
static const uint64_t MAXTOT = 0x7fffffffffffffffull;

VP_ENTRY vp_main_seq2()
{
  size_t dx = vp_nondet_u64(), dy = vp_nondet_u64();
  vp_assume(dx >= 1 && dy >= 1 && (U128)dx * dy <= MAXTOT);
  index_sequence_2D s(vec_t<size_t, 2>(dx, dy));
  vp_assert(s.total_indices() == dx * dy && (U128)s.total_indices() == (U128)dx * dy, "total_indices = product (no wrap)");
  size_t x = vp_nondet_u64(), y = vp_nondet_u64();
  vp_assume(x < dx && y < dy);
  size_t i = s.flatten(vec_t<size_t, 2>(x, y));
  vp_assert((U128)i == (U128)x + (U128)dx * y, "flatten equals its unbounded-integer value");
  vp_assert(i < s.total_indices(), "flatten lands in [0,total)");
  auto c = s.reshape(i);
  vp_assert(c.x == x && c.y == y, "reshape(flatten(c)) = c");
  size_t j = vp_nondet_u64();
  vp_assume(j < dx * dy);
  auto d = s.reshape(j);
  vp_assert(d.x < dx && d.y < dy, "reshape lands inside the extent");
  vp_assert(s.flatten(d) == j, "flatten(reshape(i)) = i");
  // order: flattened order is lexicographic in (y,x)
  size_t x2 = vp_nondet_u64(), y2 = vp_nondet_u64();
  vp_assume(x2 < dx && y2 < dy);
  size_t i2 = s.flatten(vec_t<size_t, 2>(x2, y2));
  vp_assert((i < i2) == ((y < y2) | ((y == y2) & (x < x2))), "flatten is monotone: row-major order");
  vp_reach("end");
}

VP_ENTRY vp_main_seq3()
{
  size_t dx = vp_nondet_u64(), dy = vp_nondet_u64(), dz = vp_nondet_u64();
  vp_assume(dx >= 1 && dy >= 1 && dz >= 1 && dx < (1ull << 21) && dy < (1ull << 21) && dz < (1ull << 21));
  index_sequence_3D s(vec_t<size_t, 3>(dx, dy, dz));
  vp_assert((U128)s.total_indices() == (U128)dx * dy * dz, "total_indices = product (no wrap)");
  size_t x = vp_nondet_u64(), y = vp_nondet_u64(), z = vp_nondet_u64();
  vp_assume(x < dx && y < dy && z < dz);
  size_t i = s.flatten(vec_t<size_t, 3>(x, y, z));
  vp_assert((U128)i == (U128)x + (U128)dx * ((U128)y + (U128)dy * z), "flatten equals its unbounded-integer value");
  vp_assert(i < s.total_indices(), "flatten lands in [0,total)");
  // compositional cut (assert, then assume, the two Euclidean facts the 3-level div/mod reasoning needs)
  { size_t P = dx * dy;
    vp_assert(i / P == z, "lemma: i div (dx*dy) = z"); vp_assume(i / P == z);
    vp_assert(i % P == x + dx * y, "lemma: i mod (dx*dy) = x + dx*y"); vp_assume(i % P == x + dx * y);
    size_t w = x + dx * y;
    vp_assume(w % dx == x && w / dx == y);   /* instance of vp_main_lemma_euclid (r=x, d=dx, k=y) */ }
  auto c = s.reshape(i);
  vp_assert(c.z == z, "reshape(flatten(c)).z = c.z"); vp_assert(c.y == y, "reshape(flatten(c)).y = c.y"); vp_assert(c.x == x, "reshape(flatten(c)).x = c.x");
  size_t j = vp_nondet_u64();
  vp_assume(j < dx * dy * dz);
  auto d = s.reshape(j);
  vp_assert(d.x < dx && d.y < dy && d.z < dz, "reshape lands inside the extent");
  vp_assert(s.flatten(d) == j, "flatten(reshape(i)) = i");
  vp_reach("end");
}

VP_ENTRY vp_main_iter()
{
  size_t dx = vp_nondet_u64(), dy = vp_nondet_u64();
  vp_assume(dx >= 1 && dy >= 1 && dx < (1ull << 31) && dy < (1ull << 31));
  index_sequence_2D s(vec_t<size_t, 2>(dx, dy));
  auto b = s.begin(), e = s.end();
  vp_assert(b.current() == 0, "begin at 0");
  vp_assert(e.current() == dx * dy, "end at total");
  size_t k = vp_nondet_u64();
  vp_assume(k < dx * dy);
  multidim_index_iterator<2> it(vec_t<size_t, 2>(dx, dy), k);
  auto c = *it; auto r = s.reshape(k);
  vp_assert(c.x == r.x && c.y == r.y, "*it = reshape(current)");
  auto it2 = ++it;
  vp_assert(it.current() == k + 1 && it2.current() == k + 1, "pre-increment adds 1");
  it++;
  vp_assert(it.current() == k + 2, "post-increment adds 1");
  multidim_index_iterator<2> a(vec_t<size_t, 2>(dx, dy), k), a2(vec_t<size_t, 2>(dx, dy), k), a3(vec_t<size_t, 2>(dx, dy), k + 1), a4(vec_t<size_t, 2>(dx + 1, dy), k);
  vp_assert(a == a2 && !(a != a2), "iterators equal: same extent and index");
  vp_assert(a != a3 && !(a == a3), "iterators differ by index");
  vp_assert(a != a4, "iterators differ by extent");
  vp_assert((b != e) == (dx * dy != 0), "begin != end for non-empty extents");
  vp_reach("end");
}

VP_ENTRY vp_main_array3d_index()
{
  int dx = vp_nondet_int(), dy = vp_nondet_int(), dz = vp_nondet_int();
  vp_assume(dx >= 1 && dy >= 1 && dz >= 1 && (U128)(uint64_t)dx * (uint64_t)dy * (uint64_t)dz <= MAXTOT);
  math::vec3i dims(dx, dy, dz);
  vp_assert((U128)array3D::longProduct(dims) == (U128)(uint64_t)dx * (uint64_t)dy * (uint64_t)dz, "longProduct in 64 bits without overflow");
  int x = vp_nondet_int(), y = vp_nondet_int(), z = vp_nondet_int();
  vp_assume(x >= 0 && x < dx && y >= 0 && y < dy && z >= 0 && z < dz);
  size_t i = array3D::longIndex(math::vec3i(x, y, z), dims);
  vp_assert((U128)i == (U128)(uint64_t)x + (U128)(uint64_t)dx * ((U128)(uint64_t)y + (U128)(uint64_t)dy * (uint64_t)z), "longIndex equals its unbounded-integer value (no 32-bit intermediate)");
  vp_assert(i < array3D::longProduct(dims), "longIndex in [0,total)");
  { size_t q = i / (size_t)dx;
    vp_assert(q == (size_t)y + (size_t)dy * (size_t)z, "lemma: i div dx = y + dy*z"); vp_assume(q == (size_t)y + (size_t)dy * (size_t)z);
    vp_assert(i % (size_t)dx == (size_t)x, "lemma: i mod dx = x"); vp_assume(i % (size_t)dx == (size_t)x);
    vp_assume(q % (size_t)dy == (size_t)y && q / (size_t)dy == (size_t)z);   /* instance of vp_main_lemma_euclid (r=y, d=dy, k=z) */ }
  math::vec3i c = array3D::coordsOf(i, dims);
  vp_assert(c.x == x, "coordsOf(longIndex(c)).x = c.x"); vp_assert(c.y == y, "coordsOf(longIndex(c)).y = c.y"); vp_assert(c.z == z, "coordsOf(longIndex(c)).z = c.z");
  size_t j = vp_nondet_u64();
  vp_assume(j < array3D::longProduct(dims));
  math::vec3i d = array3D::coordsOf(j, dims);
  vp_assert(d.x >= 0 && d.x < dx && d.y >= 0 && d.y < dy && d.z >= 0 && d.z < dz, "coordsOf lands inside the extent");
  { size_t q = j / (size_t)dx;
    vp_assert(q == q % (size_t)dy + (size_t)dy * (q / (size_t)dy), "lemma: Euclid on j div dx"); vp_assume(q == q % (size_t)dy + (size_t)dy * (q / (size_t)dy));
    vp_assert(j == j % (size_t)dx + (size_t)dx * q, "lemma: Euclid on j"); vp_assume(j == j % (size_t)dx + (size_t)dx * q); }
  vp_assert(array3D::longIndex(d, dims) == j, "longIndex(coordsOf(i)) = i");
  vp_reach("end");
}

// variable-only cut lemma used above: for 0 <= r < d and r + d*k without wrap, (r + d*k) mod d = r and (r + d*k) div d = k
VP_ENTRY vp_main_lemma_euclid()
{
  size_t r = vp_nondet_u64(), d = vp_nondet_u64(), k = vp_nondet_u64();
  vp_assume(d >= 1 && r < d && (U128)r + (U128)d * k <= MAXTOT);
  size_t w = r + d * k;
  vp_assert(w / d == k, "Euclid: (r + d*k) div d = k");
  vp_assume(w / d == k);          // proven on the line above
  vp_assert(w % d == r, "Euclid: (r + d*k) mod d = r");
  vp_reach("end");
}
